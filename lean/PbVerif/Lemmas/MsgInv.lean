import PbVerif.Lemmas.MsgAlg
import PbVerif.Lemmas.MsgDec
/-
Invariants of message values as finite maps: strictly ascending field numbers, at most one
populated member per oneof, pointwise value conditions; their preservation by the field-list
operations (`set`, `erase`, `clearOneof`, `setSingular`, `appendList`).  Shared by C06 (decoded
messages are well-formed), C11 (presence) and C12 (oneofs).
-/
namespace Pb
open Spec

/-! ### strictly ascending field numbers -/

def Fields.sortedFrom (lb : Nat) : Fields → Prop
  | .nil => True
  | .cons n _ tl => lb ≤ n ∧ Fields.sortedFrom (n + 1) tl

theorem Fields.sortedFrom_mono {lb lb' : Nat} (h : lb' ≤ lb) : ∀ {fs : Fields}, fs.sortedFrom lb → fs.sortedFrom lb'
  | .nil, _ => trivial
  | .cons _ _ _, ⟨a, b⟩ => ⟨by omega, b⟩

theorem Fields.get?_of_sortedFrom {lb k : Nat} (hk : k < lb) : ∀ {fs : Fields}, fs.sortedFrom lb → fs.get? k = none
  | .nil, _ => rfl
  | .cons n x tl, ⟨a, b⟩ => by
    have : ¬ n = k := by omega
    simp only [Fields.get?, this, if_false]
    exact Fields.get?_of_sortedFrom (by omega) b

theorem Fields.sortedFrom_set {lb k : Nat} (fv : FVal) (hk : lb ≤ k) : ∀ {fs : Fields}, fs.sortedFrom lb →
    (fs.set k fv).sortedFrom lb
  | .nil, _ => ⟨hk, trivial⟩
  | .cons n x tl, ⟨a, b⟩ => by
    simp only [Fields.set]
    split
    · exact ⟨hk, by omega, b⟩
    · split
      · exact ⟨a, b⟩
      · exact ⟨a, Fields.sortedFrom_set fv (by omega) b⟩

theorem Fields.sortedFrom_erase {lb : Nat} (k : Nat) : ∀ {fs : Fields}, fs.sortedFrom lb → (fs.erase k).sortedFrom lb
  | .nil, _ => trivial
  | .cons n x tl, ⟨a, b⟩ => by
    simp only [Fields.erase]
    split
    · exact Fields.sortedFrom_mono (by omega) (Fields.sortedFrom_erase k b)
    · exact ⟨a, Fields.sortedFrom_erase k b⟩

theorem Fields.sortedFrom_clearOneof {lb : Nat} (d : MsgD) (o keep : Nat) : ∀ {fs : Fields}, fs.sortedFrom lb →
    (Fields.clearOneof d o keep fs).sortedFrom lb
  | .nil, _ => trivial
  | .cons n x tl, ⟨a, b⟩ => by
    rw [Fields.clearOneof_cons]
    split
    · exact Fields.sortedFrom_mono (by omega) (Fields.sortedFrom_clearOneof d o keep b)
    · exact ⟨a, Fields.sortedFrom_clearOneof d o keep b⟩

theorem sortedFrom_setSingular {lb : Nat} (d : MsgD) (f : Field) (v : Val) (hk : lb ≤ f.num) {fs : Fields}
    (h : fs.sortedFrom lb) : (setSingular d f fs v).sortedFrom lb := by
  unfold setSingular
  cases f.oneof with
  | none => simp only; split; exact Fields.sortedFrom_erase _ h; exact Fields.sortedFrom_set _ hk h
  | some o =>
    simp only; split
    · exact Fields.sortedFrom_erase _ (Fields.sortedFrom_clearOneof d o _ h)
    · exact Fields.sortedFrom_set _ hk (Fields.sortedFrom_clearOneof d o _ h)

theorem sortedFrom_appendList {lb k : Nat} (vs : Vals) (hk : lb ≤ k) {fs : Fields} (h : fs.sortedFrom lb) :
    (appendList fs k vs).sortedFrom lb := by
  rw [appendList_eq]; split
  · exact h
  · exact Fields.sortedFrom_set _ hk h

/-- Bool version -/
def sortedB (lb : Nat) : Fields → Bool
  | .nil => true
  | .cons n _ tl => decide (lb ≤ n) && sortedB (n + 1) tl

theorem sortedB_iff : ∀ (fs : Fields) (lb : Nat), sortedB lb fs = true ↔ fs.sortedFrom lb
  | .nil, _ => by simp [sortedB, Fields.sortedFrom]
  | .cons n x tl, lb => by simp [sortedB, Fields.sortedFrom, sortedB_iff tl (n + 1)]

/-! ### at most one populated member per oneof -/

def AtMostOne (d : MsgD) (fs : Fields) : Prop :=
  ∀ n1 n2 f1 f2 o, (fs.get? n1).isSome = true → (fs.get? n2).isSome = true →
    d.find n1 = some f1 → d.find n2 = some f2 → f1.oneof = some o → f2.oneof = some o → n1 = n2

theorem AtMostOne_nil (d : MsgD) : AtMostOne d .nil := by
  intro n1 n2 f1 f2 o h; simp [Fields.get?] at h

/-- anything that only removes fields keeps the property -/
theorem AtMostOne_of_subset {d : MsgD} {fs fs' : Fields}
    (hsub : ∀ n, (fs'.get? n).isSome = true → (fs.get? n).isSome = true) (h : AtMostOne d fs) : AtMostOne d fs' :=
  fun n1 n2 f1 f2 o h1 h2 => h n1 n2 f1 f2 o (hsub _ h1) (hsub _ h2)

theorem AtMostOne_erase {d : MsgD} {fs : Fields} (k : Nat) (h : AtMostOne d fs) : AtMostOne d (fs.erase k) := by
  apply AtMostOne_of_subset _ h
  intro n hn; rw [Fields.get?_erase] at hn; split at hn <;> simp_all

theorem AtMostOne_clearOneof {d : MsgD} {fs : Fields} (o keep : Nat) (h : AtMostOne d fs) :
    AtMostOne d (Fields.clearOneof d o keep fs) := by
  apply AtMostOne_of_subset _ h
  intro n hn; rw [Fields.get?_clearOneof] at hn; split at hn <;> simp_all

/-- no other populated field is a member of the oneof of `f` -/
def OthersCleared (d : MsgD) (f : Field) (fs : Fields) : Prop :=
  ∀ o, f.oneof = some o → ∀ j g, j ≠ f.num → (fs.get? j).isSome = true → d.find j = some g → g.oneof ≠ some o

theorem AtMostOne_set {d : MsgD} {fs : Fields} {f : Field} (fv : FVal) (hf : d.find f.num = some f)
    (hc : OthersCleared d f fs) (h : AtMostOne d fs) : AtMostOne d (fs.set f.num fv) := by
  intro n1 n2 f1 f2 o h1 h2 e1 e2 o1 o2
  rw [Fields.get?_set] at h1 h2
  by_cases a1 : f.num = n1 <;> by_cases a2 : f.num = n2
  · omega
  · subst a1; simp only [a2, if_false] at h2
    rw [hf] at e1; cases e1
    exact absurd o2 (hc o o1 n2 f2 (by omega) h2 e2)
  · subst a2; simp only [a1, if_false] at h1
    rw [hf] at e2; cases e2
    exact absurd o1 (hc o o2 n1 f1 (by omega) h1 e1)
  · simp only [a1, a2, if_false] at h1 h2
    exact h n1 n2 f1 f2 o h1 h2 e1 e2 o1 o2

theorem OthersCleared_clearOneofFor (d : MsgD) (f : Field) (fs : Fields) :
    OthersCleared d f (match f.oneof with
      | some o => Fields.clearOneof d o f.num fs
      | none => fs) := by
  intro o ho j g hj hs hg hgo
  simp only [ho] at hs
  rw [Fields.get?_clearOneof] at hs
  have : d.otherMember o f.num j = true := by
    simp [MsgD.otherMember, hg, hgo, hj]
  simp [this] at hs

theorem OthersCleared_of_none {d : MsgD} {f : Field} (h : f.oneof = none) (fs : Fields) : OthersCleared d f fs := by
  intro o ho; rw [h] at ho; cases ho

theorem OthersCleared_erase {d : MsgD} {f : Field} {fs : Fields} (k : Nat) (h : OthersCleared d f fs) :
    OthersCleared d f (fs.erase k) := by
  intro o ho j g hj hs
  rw [Fields.get?_erase] at hs
  split at hs
  · simp at hs
  · exact h o ho j g hj hs

theorem AtMostOne_clearOneofFor {d : MsgD} {fs : Fields} (f : Field) (h : AtMostOne d fs) :
    AtMostOne d (match f.oneof with
      | some o => Fields.clearOneof d o f.num fs
      | none => fs) := by
  cases f.oneof with
  | none => exact h
  | some o => exact AtMostOne_clearOneof o _ h

theorem AtMostOne_setSingular {d : MsgD} {fs : Fields} {f : Field} (v : Val) (hf : d.find f.num = some f)
    (h : AtMostOne d fs) : AtMostOne d (setSingular d f fs v) := by
  unfold setSingular
  have hc := OthersCleared_clearOneofFor d f fs
  have ha := AtMostOne_clearOneofFor f h
  simp only
  split
  · exact AtMostOne_erase _ ha
  · exact AtMostOne_set _ hf hc ha

theorem AtMostOne_appendList {d : MsgD} {fs : Fields} {f : Field} (vs : Vals) (hf : d.find f.num = some f)
    (ho : f.oneof = none) (h : AtMostOne d fs) : AtMostOne d (appendList fs f.num vs) := by
  rw [appendList_eq]; split
  · exact h
  · exact AtMostOne_set _ hf (OthersCleared_of_none ho fs) h

/-- Bool version (for lists without duplicates it says the same) -/
def oneofOKB (d : MsgD) : Fields → Bool
  | .nil => true
  | .cons n _ tl =>
    (match d.find n with
     | some f => (match f.oneof with
        | some o => oneofFree d o tl
        | none => true)
     | none => true) && oneofOKB d tl

theorem oneofFree_iff (d : MsgD) (o : Nat) : ∀ (fs : Fields), oneofFree d o fs = true ↔
    ∀ n g, (fs.get? n).isSome = true → d.find n = some g → g.oneof ≠ some o
  | .nil => by simp [oneofFree, Fields.get?]
  | .cons k x tl => by
    simp only [oneofFree, Bool.and_eq_true, oneofFree_iff d o tl, Fields.get?_cons]
    constructor
    · rintro ⟨h1, h2⟩ n g hn hg
      by_cases hk : k = n
      · subst hk; simp only [hg, bne_iff_ne, ne_eq] at h1; exact h1
      · simp only [hk, if_false] at hn; exact h2 n g hn hg
    · intro h
      constructor
      · cases hg : d.find k with
        | none => rfl
        | some g => simp only [bne_iff_ne, ne_eq]; exact h k g (by simp) hg
      · intro n g hn hg
        by_cases hk : k = n
        · exact h n g (by simp [hk]) hg
        · exact h n g (by simp [hk, hn]) hg

theorem oneofOKB_iff (d : MsgD) : ∀ (fs : Fields) (lb : Nat), fs.sortedFrom lb →
    (oneofOKB d fs = true ↔ AtMostOne d fs)
  | .nil, _, _ => by simp [oneofOKB, AtMostOne_nil]
  | .cons k x tl, lb, ⟨hk, hs⟩ => by
    have ih := oneofOKB_iff d tl (k + 1) hs
    have hkt : tl.get? k = none := Fields.get?_of_sortedFrom (by omega) hs
    simp only [oneofOKB, Bool.and_eq_true, ih]
    constructor
    · rintro ⟨h1, h2⟩ n1 n2 f1 f2 o a1 a2 e1 e2 o1 o2
      rw [Fields.get?_cons] at a1 a2
      by_cases c1 : k = n1 <;> by_cases c2 : k = n2
      · omega
      · subst c1; simp only [c2, if_false] at a2
        simp only [e1, o1] at h1
        exact absurd o2 ((oneofFree_iff d o tl).mp h1 n2 f2 a2 e2)
      · subst c2; simp only [c1, if_false] at a1
        simp only [e2, o2] at h1
        exact absurd o1 ((oneofFree_iff d o tl).mp h1 n1 f1 a1 e1)
      · simp only [c1, c2, if_false] at a1 a2
        exact h2 n1 n2 f1 f2 o a1 a2 e1 e2 o1 o2
    · intro h
      constructor
      · cases hg : d.find k with
        | none => rfl
        | some g =>
          cases ho : g.oneof with
          | none => simp only [ho]
          | some o =>
            simp only [ho]
            rw [oneofFree_iff]
            intro n g' hn hg' hgo
            have hne : k ≠ n := by intro e; subst e; simp [hkt] at hn
            have := h k n g g' o (by simp [Fields.get?_cons]) (by simp [Fields.get?_cons, hne, hn]) hg hg' ho hgo
            exact hne this
      · intro n1 n2 f1 f2 o a1 a2
        have b1 : k ≠ n1 := by intro e; subst e; simp [hkt] at a1
        have b2 : k ≠ n2 := by intro e; subst e; simp [hkt] at a2
        exact h n1 n2 f1 f2 o (by simp [Fields.get?_cons, b1, a1]) (by simp [Fields.get?_cons, b2, a2])

/-! ### the invariant established by the decoder (hereditary, Bool-valued)

`dwfMsg` is `cwfMsg` (Lemmas/MsgWF.lean, the hypothesis of the round trip C03) without the
conjuncts about unknown bytes, encoded sizes and the group budget. -/

mutual
def dwfMsg (S : Schema) (mi : Nat) : Msg → Bool
  | .mk fs _ => sortedB 1 fs && oneofOKB (S.msg mi) fs && dvFields S (S.msg mi) fs
/-- every stored field is declared, ≤ 2^29-1, and holds a well-formed value -/
def dvFields (S : Schema) (d : MsgD) : Fields → Bool
  | .nil => true
  | .cons n fv tl =>
    decide (n ≤ maxValidNumber) &&
    (match d.find n with
     | some f => dwfFVal S f fv
     | none => false) && dvFields S d tl
def dwfFVal (S : Schema) (f : Field) : FVal → Bool
  | .one v =>
    (f.card != .repeated && f.card != .map) && dwfVal S f v && !(f.card == .implicit && v.isZero)
  | .many vs =>
    !vs.isNil &&
    (match f.card with
     | .repeated => dwfVals S f vs
     | .map =>
       (match (S.msg f.sub).find 1, (S.msg f.sub).find 2 with
        | some kf, some vf => dwfEntries S kf vf vs
        | _, _ => false)
     | _ => false)
def dwfVal (S : Schema) (f : Field) : Val → Bool
  | .msg m => f.kind.isMessage && dwfMsg S f.sub m
  | .num n => !f.kind.isMessage && wfScalar f (.num n)
  | .bytes b => !f.kind.isMessage && wfScalar f (.bytes b)
def dwfVals (S : Schema) (f : Field) : Vals → Bool
  | .nil => true
  | .cons v tl => dwfVal S f v && dwfVals S f tl
def dwfEntries (S : Schema) (kf vf : Field) : Vals → Bool
  | .nil => true
  | .cons v tl =>
    dwfEntry S kf vf v &&
    (match v with
     | .msg e =>
       (match entryKey e with
        | some k => keyFree k tl
        | none => false)
     | _ => false) &&
    dwfEntries S kf vf tl
def dwfEntry (S : Schema) (kf vf : Field) : Val → Bool
  | .msg (.mk (.cons n1 (.one k) (.cons n2 (.one v) .nil)) u) =>
    n1 == 1 && n2 == 2 && u.isEmpty && wfScalar kf k && dwfVal S vf v
  | _ => false
end

theorem dwfMsg_empty (S : Schema) (mi : Nat) : dwfMsg S mi Msg.empty = true := by
  simp [Msg.empty, dwfMsg, sortedB, oneofOKB, dvFields]

theorem dvFields_get {S : Schema} {d : MsgD} : ∀ {fs : Fields} {n : Nat} {fv : FVal}, dvFields S d fs = true →
    fs.get? n = some fv → n ≤ maxValidNumber ∧ ∃ f, d.find n = some f ∧ dwfFVal S f fv = true
  | .nil, _, _, _, h => by simp [Fields.get?] at h
  | .cons k x tl, n, fv, hv, h => by
    simp only [dvFields, Bool.and_eq_true, decide_eq_true_eq] at hv
    rw [Fields.get?_cons] at h
    by_cases hk : k = n
    · simp only [hk, if_true, Option.some.injEq] at h
      subst hk; subst h
      refine ⟨hv.1.1, ?_⟩
      cases hf : d.find k with
      | none => simp [hf] at hv
      | some f => simp only [hf] at hv; exact ⟨f, rfl, hv.1.2⟩
    · simp only [hk, if_false] at h
      exact dvFields_get hv.2 h

theorem dvFields_of {S : Schema} {d : MsgD} : ∀ {fs : Fields} {lb : Nat}, fs.sortedFrom lb →
    (∀ n fv, fs.get? n = some fv → n ≤ maxValidNumber ∧ ∃ f, d.find n = some f ∧ dwfFVal S f fv = true) →
    dvFields S d fs = true
  | .nil, _, _, _ => rfl
  | .cons k x tl, lb, ⟨hk, hs⟩, h => by
    have hkt : tl.get? k = none := Fields.get?_of_sortedFrom (by omega) hs
    obtain ⟨hm, f, hf, hv⟩ := h k x (by simp [Fields.get?_cons])
    simp only [dvFields, Bool.and_eq_true, decide_eq_true_eq, hf]
    refine ⟨⟨hm, hv⟩, dvFields_of hs ?_⟩
    intro n fv hn
    have hne : k ≠ n := by intro e; subst e; rw [hkt] at hn; cases hn
    exact h n fv (by simp [Fields.get?_cons, hne, hn])

/-- the three components of `dwfMsg`, pointwise -/
theorem dwfMsg_iff (S : Schema) (mi : Nat) (fs : Fields) (u : List Byte) :
    dwfMsg S mi (.mk fs u) = true ↔
      fs.sortedFrom 1 ∧ AtMostOne (S.msg mi) fs ∧
      (∀ n fv, fs.get? n = some fv → n ≤ maxValidNumber ∧ ∃ f, (S.msg mi).find n = some f ∧ dwfFVal S f fv = true) := by
  simp only [dwfMsg, Bool.and_eq_true, sortedB_iff]
  constructor
  · rintro ⟨⟨h1, h2⟩, h3⟩
    exact ⟨h1, (oneofOKB_iff _ fs 1 h1).mp h2, fun n fv h => dvFields_get h3 h⟩
  · rintro ⟨h1, h2, h3⟩
    exact ⟨⟨h1, (oneofOKB_iff _ fs 1 h1).mpr h2⟩, dvFields_of h1 h3⟩

/-! ### lists and maps -/

theorem dwfVals_append {S : Schema} {f : Field} : ∀ (a b : Vals), dwfVals S f a = true → dwfVals S f b = true →
    dwfVals S f (a.append b) = true
  | .nil, b, _, hb => hb
  | .cons v tl, b, ha, hb => by
    simp only [dwfVals, Bool.and_eq_true] at ha
    simp only [Vals.append, dwfVals, Bool.and_eq_true]
    exact ⟨ha.1, dwfVals_append tl b ha.2 hb⟩

theorem mapPut_isNil (vs : Vals) (k : Val) (e : Msg) : (mapPut vs k e).isNil = false := by
  cases vs with
  | nil => simp [mapPut, Vals.isNil]
  | cons v tl =>
    cases v with
    | msg old =>
      simp only [mapPut]
      split
      · split <;> simp [Vals.isNil]
      · simp [Vals.isNil]
    | num n => simp [mapPut, Vals.isNil]
    | bytes b => simp [mapPut, Vals.isNil]

theorem keyFree_mapPut {k key : Val} {e : Msg} (he : entryKey e = some key) (hk : valBEq k key = false) :
    ∀ (vs : Vals), keyFree k (mapPut vs key e) = keyFree k vs
  | .nil => by simp [mapPut, keyFree, he, hk]
  | .cons (.msg old) tl => by
    simp only [mapPut]
    cases ho : entryKey old with
    | none => simp only [keyFree, ho, keyFree_mapPut he hk tl]
    | some k' =>
      simp only
      by_cases hkk : valBEq key k' = true
      · have := valBEq_to_eq hkk; subst this
        simp only [hkk, if_true, keyFree, he, ho]
      · have hkf : valBEq key k' = false := by simpa using hkk
        simp only [hkf, Bool.false_eq_true, if_false, keyFree, ho, keyFree_mapPut he hk tl]
  | .cons (.num n) tl => by simp only [mapPut, keyFree, keyFree_mapPut he hk tl]
  | .cons (.bytes b) tl => by simp only [mapPut, keyFree, keyFree_mapPut he hk tl]

theorem dwfEntries_mapPut {S : Schema} {kf vf : Field} {key : Val} {e : Msg}
    (hwe : dwfEntry S kf vf (.msg e) = true) (he : entryKey e = some key) :
    ∀ (vs : Vals), dwfEntries S kf vf vs = true → dwfEntries S kf vf (mapPut vs key e) = true
  | .nil, _ => by simp [mapPut, dwfEntries, hwe, he, keyFree]
  | .cons (.msg old) tl, h => by
    simp only [dwfEntries, Bool.and_eq_true] at h
    obtain ⟨⟨h1, h2⟩, h3⟩ := h
    simp only [mapPut]
    cases ho : entryKey old with
    | none => simp [ho] at h2
    | some k' =>
      simp only [ho] at h2
      simp only
      by_cases hkk : valBEq key k' = true
      · have := valBEq_to_eq hkk; subst this
        simp only [hkk, if_true, dwfEntries, hwe, he, h2, h3, Bool.and_self]
      · have hkk' : valBEq k' key = false := by rw [valBEq_comm]; simpa using hkk
        have hkf : valBEq key k' = false := by simpa using hkk
        simp only [hkf, Bool.false_eq_true, if_false, dwfEntries, h1, ho, keyFree_mapPut he hkk' tl, h2,
          dwfEntries_mapPut hwe he tl h3, Bool.and_self]
  | .cons (.num n) tl, h => by simp [dwfEntries, dwfEntry] at h
  | .cons (.bytes b) tl, h => by simp [dwfEntries, dwfEntry] at h

theorem leValue_lt : ∀ (l : List Byte), leValue l < 256 ^ l.length
  | [] => by simp [leValue]
  | x :: r => by
    have := leValue_lt r
    have hx := x.isLt
    simp only [leValue, List.length_cons, Nat.pow_succ]
    omega

theorem decFixed_lt {k : Nat} {b : List Byte} {v n : Nat} (h : decFixed k b = .ok (v, n)) : v < 256 ^ k := by
  unfold decFixed at h
  split at h
  · simp at h
  · simp only [Except.ok.injEq, Prod.mk.injEq] at h
    rw [← h.1]
    have := leValue_lt (b.take k)
    have hl : (b.take k).length = k := by simp only [List.length_take]; omega
    rwa [hl] at this

/-- what `decScalar` returns is a well-formed scalar of the field -/
theorem decScalar_wf {f : Field} {wt : Nat} {val : List Byte} {v : Val} (hm : f.kind.isMessage = false)
    (h : decScalar f wt val = some (.ok v)) : wfScalar f v = true := by
  unfold decScalar at h
  split at h
  · simp at h
  · split at h
    · rename_i hw
      split at h
      · rename_i x n heq
        simp only [Option.some.injEq, Except.ok.injEq] at h; subst h
        have hc := canonVarint_canon hw (decVarint_lt heq)
        simp only [wfScalar, Bool.and_eq_true, decide_eq_true_eq]
        exact ⟨by cases hk : f.kind <;> simp [hk, Kind.wireType, Kind.isNumeric] at hw ⊢, hc⟩
      · simp at h
    · rename_i hw
      split at h
      · rename_i x n heq
        simp only [Option.some.injEq, Except.ok.injEq] at h; subst h
        simp only [wfScalar, Bool.and_eq_true, decide_eq_true_eq]
        exact ⟨by cases hk : f.kind <;> simp [hk, Kind.wireType, Kind.isNumeric] at hw ⊢, canonFixed32_canon x hw⟩
      · simp at h
    · rename_i hw
      split at h
      · rename_i x n heq
        simp only [Option.some.injEq, Except.ok.injEq] at h; subst h
        have hx := decFixed_lt heq
        have e : (256:Nat) ^ 8 = 2 ^ 64 := by decide
        rw [e] at hx
        simp only [wfScalar, Bool.and_eq_true, decide_eq_true_eq]
        refine ⟨by cases hk : f.kind <;> simp [hk, Kind.wireType, Kind.isNumeric] at hw ⊢, ?_⟩
        cases hk : f.kind <;> simp [hk, Kind.wireType] at hw <;> simp only [CanonNum] <;> exact hx
      · simp at h
    · rename_i hw
      split at h
      · rename_i p n heq
        split at h
        · simp at h
        · rename_i hu
          simp only [Option.some.injEq, Except.ok.injEq] at h; subst h
          have hl := decBytes_lt heq
          have hkind : f.kind = .string ∨ f.kind = .bytes := by
            cases hk : f.kind <;> simp [hk, Kind.wireType, Kind.isMessage] at hw hm ⊢
          simp only [wfScalar, Bool.and_eq_true, Bool.or_eq_true, decide_eq_true_eq, Bool.not_eq_true']
          refine ⟨⟨hkind, hl⟩, ?_⟩
          simpa using hu
      · simp at h
    · simp at h

theorem decPacked_wf {S : Schema} {f : Field} (hnum : f.kind.isNumeric = true) : ∀ (fuel : Nat) (b : List Byte) (vs : Vals),
    decPacked f.kind fuel b = .ok vs → dwfVals S f vs = true
  | 0, _, _, h => by simp [decPacked] at h
  | fuel + 1, [], vs, h => by
    simp only [decPacked, Except.ok.injEq] at h; subst h; rfl
  | fuel + 1, x :: r, vs, h => by
    rw [decPacked_succ f.kind fuel (by simp)] at h
    have hm := isMessage_false_of_numeric hnum
    have step : ∀ (v : Val) (n : Nat), wfScalar f v = true →
        Except.map (Vals.cons v) (decPacked f.kind fuel ((x :: r).drop n)) = .ok vs → dwfVals S f vs = true := by
      intro v n hv hr
      cases hd : decPacked f.kind fuel ((x :: r).drop n) with
      | error e => simp [hd, Except.map] at hr
      | ok tl =>
        simp only [hd, Except.map, Except.ok.injEq] at hr; subst hr
        have ih := decPacked_wf (S := S) hnum fuel _ tl hd
        have hv' : dwfVal S f v = true := by
          cases v with
          | msg m => simp [wfScalar] at hv
          | num n => simp [dwfVal, hm, hv]
          | bytes b => simp [dwfVal, hm, hv]
        simp [dwfVals, hv', ih]
    split at h
    · rename_i hw
      split at h
      · rename_i v n heq
        refine step _ n ?_ h
        simp only [wfScalar, hnum, Bool.true_and, decide_eq_true_eq]
        exact canonVarint_canon hw (decVarint_lt heq)
      · simp at h
    · rename_i hw
      split at h
      · rename_i v n heq
        refine step _ n ?_ h
        simp only [wfScalar, hnum, Bool.true_and, decide_eq_true_eq]
        exact canonFixed32_canon v hw
      · simp at h
    · rename_i hw
      split at h
      · rename_i v n heq
        refine step _ n ?_ h
        have hx := decFixed_lt heq
        have e : (256:Nat) ^ 8 = 2 ^ 64 := by decide
        rw [e] at hx
        simp only [wfScalar, hnum, Bool.true_and, decide_eq_true_eq]
        cases hk : f.kind <;> simp [hk, Kind.wireType] at hw <;> simp only [CanonNum] <;> exact hx
      · simp at h
    · simp at h

/-! ### schema conditions the decoder relies on (every descriptor built by protodesc satisfies them) -/

/-- map entry types: the key is a scalar; absent keys/values default to well-formed scalars -/
def entryDeclOK (kf vf : Field) : Bool :=
  !kf.kind.isMessage && wfScalar kf (defaultScalar kf) && (vf.kind.isMessage || wfScalar vf (defaultScalar vf))

/-- repeated and map fields are not oneof members; map entry types are as above -/
def fieldDeclOK (S : Schema) (f : Field) : Bool :=
  (if f.card = .repeated ∨ f.card = .map then f.oneof.isNone else true) &&
  (if f.card = .map then
    (match (S.msg f.sub).find 1, (S.msg f.sub).find 2 with
     | some kf, some vf => entryDeclOK kf vf
     | _, _ => true)
   else true)

def schemaOK (S : Schema) : Bool := S.msgs.all fun d => d.fields.all (fieldDeclOK S)

theorem schemaOK_find {S : Schema} (h : schemaOK S = true) {mi n : Nat} {f : Field}
    (hf : (S.msg mi).find n = some f) : fieldDeclOK S f = true := by
  unfold schemaOK at h
  rw [List.all_eq_true] at h
  unfold MsgD.find at hf
  have hmem := List.mem_of_find?_eq_some hf
  unfold Schema.msg at hmem
  by_cases hi : mi < S.msgs.length
  · have : S.msgs.getD mi ⟨[]⟩ = S.msgs[mi] := by simp [List.getD, hi]
    rw [this] at hmem
    have := h _ (List.getElem_mem hi)
    rw [List.all_eq_true] at this
    exact this f hmem
  · have : S.msgs.getD mi ⟨[]⟩ = ⟨[]⟩ := by simp [List.getD, hi]
    rw [this] at hmem; simp at hmem

/-! ### the invariant is kept by each update the decoder performs -/

section
variable {S : Schema} {mi : Nat} {fs : Fields} {u : List Byte} {f : Field}

theorem dwf_appendList (h : dwfMsg S mi (.mk fs u) = true) (hf : (S.msg mi).find f.num = some f)
    (h1 : 1 ≤ f.num) (h2 : f.num ≤ maxValidNumber) (hc : f.card = .repeated) (ho : f.oneof = none)
    {vs : Vals} (hvs : dwfVals S f vs = true) (u' : List Byte) :
    dwfMsg S mi (.mk (appendList fs f.num vs) u') = true := by
  rw [dwfMsg_iff] at h ⊢
  obtain ⟨hs, ha, hp⟩ := h
  refine ⟨sortedFrom_appendList vs h1 hs, AtMostOne_appendList vs hf ho ha, ?_⟩
  intro n fv hn
  rw [get?_appendList] at hn
  split at hn
  · exact hp n fv hn
  · rename_i hnil
    split at hn
    · rename_i hnum
      subst hnum
      simp only [Option.some.injEq] at hn; subst hn
      refine ⟨h2, f, hf, ?_⟩
      have hold : dwfVals S f (fs.listAt f.num) = true := by
        unfold Fields.listAt
        split
        · rename_i o ho'
          obtain ⟨_, g, hg, hv⟩ := hp _ _ ho'
          rw [hf] at hg; cases hg
          simp only [dwfFVal, hc, Bool.and_eq_true] at hv; exact hv.2
        · rfl
      have hne : ((fs.listAt f.num).append vs).isNil = false := by
        rw [Vals.isNil_append]; simp at hnil; simp [hnil]
      simp only [dwfFVal, hne, hc, Bool.not_false, Bool.true_and]
      exact dwfVals_append _ _ hold hvs
    · exact hp n fv hn

theorem dwf_mapSet (h : dwfMsg S mi (.mk fs u) = true) (hf : (S.msg mi).find f.num = some f)
    (h1 : 1 ≤ f.num) (h2 : f.num ≤ maxValidNumber) (hc : f.card = .map) (ho : f.oneof = none)
    {kf vf : Field} (hk : (S.msg f.sub).find 1 = some kf) (hv : (S.msg f.sub).find 2 = some vf)
    {key : Val} {e : Msg} (hwe : dwfEntry S kf vf (.msg e) = true) (he : entryKey e = some key)
    {old : Vals} (hold : fs.get? f.num = some (.many old) ∨ old = .nil) (u' : List Byte) :
    dwfMsg S mi (.mk (fs.set f.num (.many (mapPut old key e))) u') = true := by
  rw [dwfMsg_iff] at h ⊢
  obtain ⟨hs, ha, hp⟩ := h
  refine ⟨Fields.sortedFrom_set _ h1 hs, AtMostOne_set _ hf (OthersCleared_of_none ho fs) ha, ?_⟩
  intro n fv hn
  rw [Fields.get?_set] at hn
  split at hn
  · rename_i hnum
    subst hnum
    simp only [Option.some.injEq] at hn; subst hn
    refine ⟨h2, f, hf, ?_⟩
    have holdw : dwfEntries S kf vf old = true := by
      rcases hold with hg | hnil
      · obtain ⟨_, g, hg', hv'⟩ := hp _ _ hg
        rw [hf] at hg'; cases hg'
        simp only [dwfFVal, hc, hk, hv, Bool.and_eq_true] at hv'; exact hv'.2
      · subst hnil; rfl
    simp only [dwfFVal, mapPut_isNil, hc, hk, hv, Bool.not_false, Bool.true_and]
    exact dwfEntries_mapPut hwe he old holdw
  · exact hp n fv hn

theorem dwf_setMsg (h : dwfMsg S mi (.mk fs u) = true) (hf : (S.msg mi).find f.num = some f)
    (h1 : 1 ≤ f.num) (h2 : f.num ≤ maxValidNumber) (hc1 : f.card ≠ .repeated) (hc2 : f.card ≠ .map)
    (hm : f.kind.isMessage = true) {sub : Msg} (hsub : dwfMsg S f.sub sub = true) (u' : List Byte) :
    dwfMsg S mi (.mk ((match f.oneof with
      | some o => Fields.clearOneof (S.msg mi) o f.num fs
      | none => fs).set f.num (.one (.msg sub))) u') = true := by
  rw [dwfMsg_iff] at h ⊢
  obtain ⟨hs, ha, hp⟩ := h
  have hs' : (match f.oneof with
      | some o => Fields.clearOneof (S.msg mi) o f.num fs
      | none => fs).sortedFrom 1 := by
    cases f.oneof with
    | none => exact hs
    | some o => exact Fields.sortedFrom_clearOneof _ o _ hs
  refine ⟨Fields.sortedFrom_set _ h1 hs', AtMostOne_set _ hf (OthersCleared_clearOneofFor _ f fs)
    (AtMostOne_clearOneofFor f ha), ?_⟩
  intro n fv hn
  rw [Fields.get?_set] at hn
  split at hn
  · rename_i hnum
    subst hnum
    simp only [Option.some.injEq] at hn; subst hn
    refine ⟨h2, f, hf, ?_⟩
    simp [dwfFVal, dwfVal, hc1, hc2, hm, hsub, Val.isZero]
  · cases hof : f.oneof with
    | none => simp only [hof] at hn; exact hp n fv hn
    | some o =>
      simp only [hof, Fields.get?_clearOneof] at hn
      split at hn
      · cases hn
      · exact hp n fv hn

theorem dwf_cur (h : dwfMsg S mi (.mk fs u) = true) (hf : (S.msg mi).find f.num = some f) {x : Msg}
    (hx : (match f.oneof with
      | some o => Fields.clearOneof (S.msg mi) o f.num fs
      | none => fs).get? f.num = some (.one (.msg x))) : dwfMsg S f.sub x = true := by
  rw [dwfMsg_iff] at h
  obtain ⟨hs, ha, hp⟩ := h
  have hx' : fs.get? f.num = some (.one (.msg x)) := by
    cases hof : f.oneof with
    | none => simpa only [hof] using hx
    | some o =>
      simp only [hof, Fields.get?_clearOneof] at hx
      split at hx
      · cases hx
      · exact hx
  obtain ⟨_, g, hg, hv⟩ := hp _ _ hx'
  rw [hf] at hg; cases hg
  simp only [dwfFVal, dwfVal, Bool.and_eq_true] at hv
  exact hv.1.2.2

theorem dwf_setSingular (h : dwfMsg S mi (.mk fs u) = true) (hf : (S.msg mi).find f.num = some f)
    (h1 : 1 ≤ f.num) (h2 : f.num ≤ maxValidNumber) (hc1 : f.card ≠ .repeated) (hc2 : f.card ≠ .map)
    (hm : f.kind.isMessage = false) {v : Val} (hv : wfScalar f v = true) (u' : List Byte) :
    dwfMsg S mi (.mk (setSingular (S.msg mi) f fs v) u') = true := by
  rw [dwfMsg_iff] at h ⊢
  obtain ⟨hs, ha, hp⟩ := h
  refine ⟨sortedFrom_setSingular _ f v h1 hs, AtMostOne_setSingular v hf ha, ?_⟩
  intro n fv hn
  rw [get?_setSingular] at hn
  split at hn
  · rename_i hnum
    subst hnum
    split at hn
    · cases hn
    · rename_i hz
      simp only [Option.some.injEq] at hn; subst hn
      refine ⟨h2, f, hf, ?_⟩
      have hvv : dwfVal S f v = true := by
        cases v with
        | msg m => simp [wfScalar] at hv
        | num n => simp [dwfVal, hm, hv]
        | bytes b => simp [dwfVal, hm, hv]
      have hz' : (f.card == Card.implicit && v.isZero) = false := by
        simpa using hz
      simp [dwfFVal, hc1, hc2, hvv, hz']
  · split at hn
    · cases hn
    · exact hp n fv hn

end

/-- state of the map-entry loop: key and value read so far are well-formed -/
def EntInv (S : Schema) (kf vf : Field) (k v : Option Val) : Prop :=
  (∀ kv, k = some kv → wfScalar kf kv = true) ∧ (∀ vv, v = some vv → dwfVal S vf vv = true) ∧
  (vf.kind.isMessage = true → v.isSome = true)

theorem dwfVal_of_scalar {S : Schema} {f : Field} {v : Val} (hm : f.kind.isMessage = false)
    (hv : wfScalar f v = true) : dwfVal S f v = true := by
  cases v with
  | msg m => simp [wfScalar] at hv
  | num n => simp [dwfVal, hm, hv]
  | bytes b => simp [dwfVal, hm, hv]

theorem dwfMsg_unknown {S : Schema} {mi : Nat} {fs : Fields} {u : List Byte} (u' : List Byte)
    (h : dwfMsg S mi (.mk fs u) = true) : dwfMsg S mi (.mk fs u') = true := by
  simpa only [dwfMsg] using h

/-- **the decoder establishes and keeps the invariant**, on any input -/
theorem dec_inv (S : Schema) (hS : schemaOK S = true) : ∀ (fuel : Nat),
    (∀ mi m b depth dis r, dwfMsg S mi m = true → decMsg fuel S mi m b depth dis = .ok r → dwfMsg S mi r = true) ∧
    (∀ mi m f wt val depth dis m', dwfMsg S mi m = true → (S.msg mi).find f.num = some f → 1 ≤ f.num →
      f.num ≤ maxValidNumber → decField fuel S mi m f wt val depth dis = .ok m' → dwfMsg S mi m' = true) ∧
    (∀ kf vf k v b depth dis k' v', kf.kind.isMessage = false → EntInv S kf vf k v → decEntry fuel S kf vf k v b depth dis = .ok (k', v') →
      EntInv S kf vf k' v')
  | 0 => by
    refine ⟨?_, ?_, ?_⟩ <;> intros <;> simp_all [decMsg, decField, decEntry]
  | fuel + 1 => by
    obtain ⟨ihA, ihB, ihC⟩ := dec_inv S hS fuel
    refine ⟨?_, ?_, ?_⟩
    · intro mi m b depth dis r hm h
      unfold decMsg at h
      split at h
      · simp only [Except.ok.injEq] at h; subst h; exact hm
      · split at h
        · simp at h
        · rename_i num wt tl ht
          simp only at h
          by_cases hmax : num > maxValidNumber
          · simp [hmax] at h
          · simp only [hmax, if_false] at h
            have hnum1 : 1 ≤ num := by
              unfold decTag at ht
              split at ht
              · simp at ht
              · simp only at ht
                split at ht
                · simp at ht
                · split at ht
                  · simp at ht
                  · simp only [Except.ok.injEq, Prod.mk.injEq] at ht; omega
            cases hfind : (S.msg mi).find num with
            | none =>
              simp only [hfind] at h
              split at h
              · simp at h
              · refine ihA _ _ _ _ _ _ ?_ h
                cases m with
                | mk fs u =>
                  cases dis
                  · exact dwfMsg_unknown _ hm
                  · exact hm
            | some f =>
              simp only [hfind] at h
              have hfn := MsgD.find_num_eq hfind
              subst hfn
              cases hstep : decField fuel S mi m f wt (b.drop tl) depth dis with
              | err e => simp [hstep] at h
              | ok m' =>
                simp only [hstep] at h
                split at h
                · simp at h
                · exact ihA _ _ _ _ _ _ (ihB _ _ _ _ _ _ _ _ hm hfind hnum1 (by omega) hstep) h
              | unknown =>
                simp only [hstep] at h
                split at h
                · simp at h
                · refine ihA _ _ _ _ _ _ ?_ h
                  cases m with
                  | mk fs u =>
                    cases dis
                    · exact dwfMsg_unknown _ hm
                    · exact hm
    · intro mi m f wt val depth dis m' hm hf h1 h2 h
      have hdecl := schemaOK_find hS hf
      cases m with
      | mk fs u =>
      unfold decField at h
      simp only [Msg.fields, Msg.unknown] at h
      split at h
      · -- repeated
        rename_i hc
        have ho : f.oneof = none := by
          simp only [fieldDeclOK, hc, true_or, if_true, Bool.and_eq_true, Option.isNone_iff_eq_none] at hdecl
          exact hdecl.1
        split at h
        · rename_i hmsg
          split at h
          · cases h
          · cases h
          · split at h
            · cases h
            · split at h
              · cases h
              · rename_i sub hsub
                simp only [Step.ok.injEq] at h; subst h
                have hw := ihA _ _ _ _ _ _ (dwfMsg_empty S f.sub) hsub
                exact dwf_appendList hm hf h1 h2 hc ho (by simp [dwfVals, dwfVal, hmsg, hw]) u
        · rename_i hmsg
          have hmsg' : f.kind.isMessage = false := by simpa using hmsg
          split at h
          · rename_i hpk
            simp only [Bool.and_eq_true] at hpk
            split at h
            · cases h
            · split at h
              · cases h
              · rename_i vs hvs
                simp only [Step.ok.injEq] at h; subst h
                exact dwf_appendList hm hf h1 h2 hc ho (decPacked_wf hpk.1 _ _ _ hvs) u
          · split at h
            · cases h
            · cases h
            · rename_i v hv
              simp only [Step.ok.injEq] at h; subst h
              have hw := dwfVal_of_scalar (S := S) hmsg' (decScalar_wf hmsg' hv)
              exact dwf_appendList hm hf h1 h2 hc ho (by simp [dwfVals, hw]) u
      · -- map
        rename_i hc
        have ho : f.oneof = none := by
          simp only [fieldDeclOK, hc, or_true, if_true, Bool.and_eq_true, Option.isNone_iff_eq_none] at hdecl
          exact hdecl.1
        split at h
        · cases h
        · split at h
          · cases h
          · split at h
            · cases h
            · rename_i p n hp
              try dsimp only at h
              split at h
              · rename_i kf vf hk hv
                have hent : entryDeclOK kf vf = true := by
                  simp only [fieldDeclOK, hc, or_true, if_true, hk, hv, Bool.and_eq_true] at hdecl
                  exact hdecl.2
                simp only [entryDeclOK, Bool.and_eq_true, Bool.or_eq_true, Bool.not_eq_true'] at hent
                obtain ⟨⟨hkm, hkd⟩, hvd⟩ := hent
                split at h
                · cases h
                · rename_i k v hkv
                  have hinit : EntInv S kf vf none (if vf.kind.isMessage = true then some (.msg Msg.empty) else none) := by
                    refine ⟨(by intro kv hk'; cases hk'), ?_, ?_⟩
                    · intro vv hvv
                      split at hvv
                      · rename_i hvm
                        cases hvv
                        simp [dwfVal, hvm, dwfMsg_empty]
                      · cases hvv
                    · intro hvm; simp [hvm]
                  obtain ⟨ek, ev, evs⟩ := ihC _ _ _ _ _ _ _ _ _ hkm hinit hkv
                  have hkey : wfScalar kf (k.getD (defaultScalar kf)) = true := by
                    cases k with
                    | none => exact hkd
                    | some kv => exact ek kv rfl
                  have hval : dwfVal S vf (v.getD (defaultScalar vf)) = true := by
                    cases v with
                    | some vv => exact ev vv rfl
                    | none =>
                      rcases hvd with hvm | hvd
                      · have := evs hvm; simp at this
                      · simp only [Option.getD_none]
                        by_cases hvm : vf.kind.isMessage = true
                        · have := evs hvm; simp at this
                        · exact dwfVal_of_scalar (by simpa using hvm) hvd
                  try dsimp only at h
                  have hwe : dwfEntry S kf vf (.msg (.mk (.cons 1 (.one (k.getD (defaultScalar kf)))
                      (.cons 2 (.one (v.getD (defaultScalar vf))) .nil)) [])) = true := by
                    simp [dwfEntry, hkey, hval]
                  have hek : entryKey (.mk (.cons 1 (.one (k.getD (defaultScalar kf)))
                      (.cons 2 (.one (v.getD (defaultScalar vf))) .nil)) []) = some (k.getD (defaultScalar kf)) := by
                    simp [entryKey, Fields.get?]
                  split at h
                  · rename_i vs hvs
                    simp only [Step.ok.injEq] at h; subst h
                    exact dwf_mapSet hm hf h1 h2 hc ho hk hv hwe hek (Or.inl hvs) u
                  · simp only [Step.ok.injEq] at h; subst h
                    exact dwf_mapSet hm hf h1 h2 hc ho hk hv hwe hek (Or.inr rfl) u
              · cases h
      · -- singular
        rename_i hc1 hc2
        have hc1' : f.card ≠ .repeated := fun e => hc1 e
        have hc2' : f.card ≠ .map := fun e => hc2 e
        split at h
        · rename_i hmsg
          split at h
          · cases h
          · cases h
          · try dsimp only at h
            split at h
            · cases h
            · split at h
              · cases h
              · rename_i sub hsub
                simp only [Step.ok.injEq] at h; subst h
                have hcur : dwfMsg S f.sub (match (match f.oneof with
                    | some o => Fields.clearOneof (S.msg mi) o f.num fs
                    | none => fs).get? f.num with
                  | some (.one (.msg x)) => x
                  | _ => Msg.empty) = true := by
                  split
                  · rename_i x hx; exact dwf_cur hm hf hx
                  · exact dwfMsg_empty S f.sub
                have hw := ihA _ _ _ _ _ _ hcur hsub
                exact dwf_setMsg hm hf h1 h2 hc1' hc2' hmsg hw u
        · rename_i hmsg
          have hmsg' : f.kind.isMessage = false := by simpa using hmsg
          split at h
          · cases h
          · cases h
          · rename_i v hv
            simp only [Step.ok.injEq] at h; subst h
            exact dwf_setSingular hm hf h1 h2 hc1' hc2' hmsg' (decScalar_wf hmsg' hv) u
    · intro kf vf k v b depth dis k' v' hkm hinv h
      obtain ⟨ek, ev, evs⟩ := hinv
      unfold decEntry at h
      split at h
      · simp only [ite_self, Except.ok.injEq, Prod.mk.injEq] at h
        obtain ⟨rfl, rfl⟩ := h
        exact ⟨ek, ev, evs⟩
      · split at h
        · cases h
        · rename_i num wt tl ht
          dsimp only at h
          by_cases hmax : num > maxValidNumber
          · simp [hmax] at h
          · simp only [hmax, if_false] at h
            repeat' split at h
            all_goals first
              | (cases h; done)
              | exact ihC _ _ _ _ _ _ _ _ _ hkm ⟨ek, ev, evs⟩ h
              | (refine ihC _ _ _ _ _ _ _ _ _ hkm ⟨?_, ev, evs⟩ h
                 intro kv hkv; cases hkv
                 exact decScalar_wf hkm ‹decScalar kf _ _ = some (.ok _)›)
              | (refine ihC _ _ _ _ _ _ _ _ _ hkm ⟨ek, ?_, by intro; rfl⟩ h
                 intro vv hvv; cases hvv
                 first
                   | exact dwfVal_of_scalar (by simpa using ‹¬ vf.kind.isMessage = true›)
                       (decScalar_wf (by simpa using ‹¬ vf.kind.isMessage = true›) ‹decScalar vf _ _ = some (.ok _)›)
                   | (have hvm : vf.kind.isMessage = true := by assumption
                      simp only [dwfVal, hvm, Bool.true_and]
                      refine ihA _ _ _ _ _ _ ?_ ‹decMsg _ _ _ _ _ _ _ = .ok _›
                      split
                      · have := ev _ rfl
                        simpa only [dwfVal, hvm, Bool.true_and] using this
                      · exact dwfMsg_empty _ _))

end Pb
