import Std.Tactic.BVDecide
/-
Small tactic helpers for goals over the go2lean translations (nests of `if` over BitVec
conditions).  `bv_decide` is used to decide each branch condition; every theorem proved with
it therefore depends on `._native.bv_decide.ax_*` axioms (reported per theorem by the audit).
-/

/-- Resolve, outermost first, every `if c then _ else _` whose condition is decided (under the
hypotheses in context) by `bv_decide`. -/
macro "ite_bv" : tactic => `(tactic| repeat (first
   | (rw [if_pos]; rotate_left; bv_decide)
   | (rw [if_neg]; rotate_left; bv_decide)))
