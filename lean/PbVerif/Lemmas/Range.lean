import PbVerif.Model.Range
/-!
Helper lemmas for C32: the Go-shaped traversal (`rangeMessage` …) equals the generic walk over the
populated-value tree (`walkForest (kidsMsg m)`), and the structural facts about the generic walk.
Core Lean only.
-/
namespace Model.Range

theorem drop_drop (o : Oracle) (a b : Nat) : (o.drop a).drop b = o.drop (a + b) := by
  funext i; simp [Oracle.drop, Nat.add_assoc]

@[simp] theorem drop_zero (o : Oracle) : o.drop 0 = o := by
  funext i; simp [Oracle.drop]

@[simp] theorem absorbBreak_nil : absorbBreak ([], Res.ok) = ([], Res.ok) := by
  simp [absorbBreak]

@[simp] theorem walkKids_nil (o : Oracle) : walkKids o .nil = ([], Res.ok) := by
  simp [walkKids]

theorem walkKids_single (o : Oracle) (t : Tree) : walkKids o (.cons t .nil) = walkTree o t := by
  rw [walkKids]
  simp only [walkKids_nil, List.append_nil]
  split
  · next h => rw [← h]
  · rfl

theorem walkKids_cons (o : Oracle) (t : Tree) (ts : Forest) :
    walkKids o (.cons t ts) =
      (if (walkTree o t).2 = .ok then
        ((walkTree o t).1 ++ (walkKids (o.drop (walkTree o t).1.length) ts).1,
         (walkKids (o.drop (walkTree o t).1.length) ts).2)
       else walkTree o t) := by
  rw [walkKids]

theorem walkTree_node (o : Oracle) (s : Step) (v : Val) (kids : Forest) :
    walkTree o (.node s v kids) = visit o s v (walkForest (o.drop 1) kids) := by
  rw [walkTree, walkForest]

mutual
  theorem rangeMessage_eq (o : Oracle) : (m : Msg) → rangeMessage o m = walkForest o (kidsMsg m)
    | .any _ _ _ body => by
      rw [rangeMessage, kidsMsg, walkForest, walkKids_single, walkTree_node,
        rangeMessage_eq (o.drop 1) body]
    | .plain _ fs unk => by
      rw [rangeMessage, kidsMsg, walkForest, rangeFields_eq o fs]
      by_cases hu : unk = []
      · subst hu
        simp only [unknownKids, ne_eq, not_true_eq_false, false_and, ↓reduceIte, walkKids_nil,
          List.append_nil]
        congr 1
        split
        · next h => rw [← h]
        · rfl
      · simp only [unknownKids, ne_eq, hu, not_false_eq_true, true_and, ↓reduceIte,
          walkKids_single, walkTree_node, walkForest, walkKids_nil, absorbBreak_nil]
  theorem rangeFields_eq (o : Oracle) : (fs : Fields) → (tail : Forest) →
      walkKids o (kidsFields fs tail) =
        (if (rangeFields o fs).2 = .ok then
          ((rangeFields o fs).1 ++ (walkKids (o.drop (rangeFields o fs).1.length) tail).1,
           (walkKids (o.drop (rangeFields o fs).1.length) tail).2)
         else rangeFields o fs)
    | .nil, tail => by
      simp [rangeFields, kidsFields]
    | .cons num v rest, tail => by
      rw [kidsFields, walkKids_cons, walkTree_node, rangeFields, ← rangeValue_eq (o.drop 1) v]
      generalize visit o (.field num) v (rangeValue (o.drop 1) v) = r
      by_cases h : r.2 = .ok
      · simp only [h, ↓reduceIte]
        rw [rangeFields_eq (o.drop r.1.length) rest tail]
        split
        · simp [drop_drop, List.append_assoc]
        · rfl
      · simp [h]
  theorem rangeValue_eq (o : Oracle) : (v : Val) → rangeValue o v = walkForest o (kidsVal v)
    | .scalar _ => by simp [rangeValue, kidsVal, walkForest]
    | .msg m => by rw [rangeValue, kidsVal, rangeMessage_eq o m]
    | .list es => by rw [rangeValue, kidsVal, walkForest, rangeElems_eq o 0 es]
    | .map kvs => by rw [rangeValue, kidsVal, walkForest, rangeEntries_eq o kvs]
  theorem rangeElems_eq (o : Oracle) (i : Nat) : (es : Elems) →
      rangeElems o i es = walkKids o (kidsElems i es)
    | .nil => by simp [rangeElems, kidsElems]
    | .cons e rest => by
      rw [rangeElems, kidsElems, walkKids_cons, walkTree_node, ← rangeElem_eq (o.drop 1) e]
      generalize visit o (.listIndex i) e.toVal (rangeElem (o.drop 1) e) = r
      by_cases h : r.2 = .ok
      · simp only [h, ↓reduceIte]
        rw [rangeElems_eq (o.drop r.1.length) (i + 1) rest]
      · simp [h]
  theorem rangeElem_eq (o : Oracle) : (e : Elem) → rangeElem o e = walkForest o (kidsElem e)
    | .scalar _ => by simp [rangeElem, kidsElem, walkForest]
    | .msg m => by rw [rangeElem, kidsElem, rangeMessage_eq o m]
  theorem rangeEntries_eq (o : Oracle) : (kvs : Entries) →
      rangeEntries o kvs = walkKids o (kidsEntries kvs)
    | .nil => by simp [rangeEntries, kidsEntries]
    | .cons k e rest => by
      rw [rangeEntries, kidsEntries, walkKids_cons, walkTree_node, ← rangeElem_eq (o.drop 1) e]
      generalize visit o (.mapIndex k) e.toVal (rangeElem (o.drop 1) e) = r
      by_cases h : r.2 = .ok
      · simp only [h, ↓reduceIte]
        rw [rangeEntries_eq (o.drop r.1.length) rest]
      · simp [h]
end

/-- The Go-shaped model is the generic walk over the populated-value tree. -/
theorem range_eq_walk (o : Oracle) (m : Msg) :
    range o m = ((walkTree o (treeOf m)).1,
      if (walkTree o (treeOf m)).2 = .brk ∨ (walkTree o (treeOf m)).2 = .term then .ok
      else (walkTree o (treeOf m)).2) := by
  rw [range, treeOf, walkTree_node, rangeMessage_eq]

/-! ## Shape of the generic walk, for every oracle -/

/-- The events of a walk over forest `f`: a *prefix* of the trees of `f` is visited, each as
`push s v · (events inside its children) · pop s v`, recursively. -/
inductive Trace : Forest → List Event → Prop
  | stop (f : Forest) : Trace f []
  | visit {s : Step} {v : Val} {kids ts : Forest} {w rest : List Event} :
      Trace kids w → Trace ts rest →
      Trace (.cons (.node s v kids) ts) (Event.push s v :: (w ++ Event.pop s v :: rest))

/-- Balanced, properly nested, push and pop of a pair carry the same step and value. -/
inductive Dyck : List Event → Prop
  | nil : Dyck []
  | node {s : Step} {v : Val} {w : List Event} : Dyck w → Dyck (Event.push s v :: (w ++ [Event.pop s v]))
  | append {a b : List Event} : Dyck a → Dyck b → Dyck (a ++ b)

theorem Trace.dyck {f : Forest} {w : List Event} (h : Trace f w) : Dyck w := by
  induction h with
  | stop => exact Dyck.nil
  | @visit s v kids ts w rest _ _ ih1 ih2 =>
    have : Event.push s v :: (w ++ Event.pop s v :: rest) = (Event.push s v :: (w ++ [Event.pop s v])) ++ rest := by
      simp
    rw [this]
    exact Dyck.append (Dyck.node ih1) ih2

theorem visit_fst (o : Oracle) (s : Step) (v : Val) (sub : Out) :
    (visit o s v sub).1 =
      Event.push s v :: ((if amend .ok (o 0) = .ok then sub.1 else []) ++ [Event.pop s v]) := by
  simp only [visit]
  split <;> simp_all

mutual
  theorem walkTree_trace (o : Oracle) : (t : Tree) → (ts : Forest) → (rest : List Event) →
      Trace ts rest → Trace (.cons t ts) ((walkTree o t).1 ++ rest)
    | .node s v kids, ts, rest, h => by
      rw [walkTree_node, visit_fst]
      simp only [List.cons_append, List.append_assoc, List.nil_append]
      refine Trace.visit ?_ h
      split
      · exact walkKids_trace (o.drop 1) kids
      · exact Trace.stop _
  theorem walkKids_trace (o : Oracle) : (f : Forest) → Trace f (walkKids o f).1
    | .nil => by rw [walkKids_nil]; exact Trace.stop _
    | .cons t ts => by
      rw [walkKids_cons]
      split
      · exact walkTree_trace o t ts _ (walkKids_trace _ ts)
      · have := walkTree_trace o t ts [] (Trace.stop _)
        simpa using this
end

theorem walkTree_trace' (o : Oracle) (t : Tree) : Trace (.cons t .nil) (walkTree o t).1 := by
  have := walkTree_trace o t .nil [] (Trace.stop _)
  simpa using this

/-! ## The walk without control actions -/

@[simp] theorem cont_drop (n : Nat) : Oracle.cont.drop n = Oracle.cont := by
  funext i; simp [Oracle.drop, Oracle.cont]

@[simp] theorem cont_apply (i : Nat) : Oracle.cont i = Res.ok := rfl

@[simp] theorem amend_ok_right (p : Res) : amend p .ok = p := by simp [amend]

theorem visit_cont (s : Step) (v : Val) (sub : Out) :
    visit Oracle.cont s v sub = (Event.push s v :: (sub.1 ++ [Event.pop s v]), sub.2) := by
  simp [visit]

mutual
  theorem contTree_snd : (t : Tree) → (walkTree Oracle.cont t).2 = .ok
    | .node s v kids => by
      rw [walkTree_node, visit_cont, walkForest, absorbBreak, cont_drop, contKids_snd kids]
      simp
  theorem contKids_snd : (f : Forest) → (walkKids Oracle.cont f).2 = .ok
    | .nil => by simp
    | .cons t ts => by
      rw [walkKids_cons, contTree_snd t]
      simp [contKids_snd ts]
end

theorem contTree_fst (s : Step) (v : Val) (kids : Forest) :
    (walkTree Oracle.cont (.node s v kids)).1 =
      Event.push s v :: ((walkKids Oracle.cont kids).1 ++ [Event.pop s v]) := by
  rw [walkTree_node, visit_cont, walkForest, absorbBreak, cont_drop]

theorem contKids_fst (t : Tree) (ts : Forest) :
    (walkKids Oracle.cont (.cons t ts)).1 = (walkTree Oracle.cont t).1 ++ (walkKids Oracle.cont ts).1 := by
  rw [walkKids_cons, contTree_snd t]
  simp

/-- The (step, value) pairs of the push events, in order. -/
def pushes : List Event → List (Step × Val)
  | [] => []
  | .push s v :: r => (s, v) :: pushes r
  | .pop _ _ :: r => pushes r

/-- The (step, value) pairs of the pop events, in order. -/
def pops : List Event → List (Step × Val)
  | [] => []
  | .push _ _ :: r => pops r
  | .pop s v :: r => (s, v) :: pops r

theorem pushes_append (a b : List Event) : pushes (a ++ b) = pushes a ++ pushes b := by
  induction a with
  | nil => rfl
  | cons e r ih => cases e <;> simp [pushes, ih]

theorem pops_append (a b : List Event) : pops (a ++ b) = pops a ++ pops b := by
  induction a with
  | nil => rfl
  | cons e r ih => cases e <;> simp [pops, ih]

mutual
  theorem contTree_pushes : (t : Tree) → pushes (walkTree Oracle.cont t).1 = preTree t
    | .node s v kids => by
      rw [contTree_fst, preTree]
      simp [pushes, pushes_append, contKids_pushes kids]
  theorem contKids_pushes : (f : Forest) → pushes (walkKids Oracle.cont f).1 = preKids f
    | .nil => by simp [pushes, preKids]
    | .cons t ts => by
      rw [contKids_fst, pushes_append, contTree_pushes t, contKids_pushes ts, preKids]
end

/- Post-order listing: the order of the pops. -/
mutual
  def postTree : Tree → List (Step × Val)
    | .node s v kids => postKids kids ++ [(s, v)]
  def postKids : Forest → List (Step × Val)
    | .nil => []
    | .cons t ts => postTree t ++ postKids ts
end

mutual
  theorem contTree_pops : (t : Tree) → pops (walkTree Oracle.cont t).1 = postTree t
    | .node s v kids => by
      rw [contTree_fst, postTree]
      simp [pops, pops_append, contKids_pops kids]
  theorem contKids_pops : (f : Forest) → pops (walkKids Oracle.cont f).1 = postKids f
    | .nil => by simp [pops, postKids]
    | .cons t ts => by
      rw [contKids_fst, pops_append, contTree_pops t, contKids_pops ts, postKids]
end

/-! ## A walk only looks at the oracle below the number of callbacks it makes -/

theorem visit_length (o : Oracle) (s : Step) (v : Val) (sub : Out) :
    (visit o s v sub).1.length = 2 + (if amend .ok (o 0) = .ok then sub.1.length else 0) := by
  rw [visit_fst]; split <;> simp <;> omega

theorem visit_congr (o o' : Oracle) (s : Step) (v : Val) (sub sub' : Out)
    (h0 : o 0 = o' 0)
    (hsub : amend .ok (o' 0) = .ok → sub = sub')
    (hl : o (1 + (if amend .ok (o' 0) = .ok then sub'.1.length else 0)) =
          o' (1 + (if amend .ok (o' 0) = .ok then sub'.1.length else 0))) :
    visit o s v sub = visit o' s v sub' := by
  simp only [visit, h0]
  by_cases h : amend .ok (o' 0) = .ok
  · simp only [h, ↓reduceIte] at hl ⊢
    rw [hsub h, hl]
  · simp only [h, ↓reduceIte] at hl ⊢
    simp only [List.length_nil] at hl ⊢
    rw [hl]

mutual
  theorem walkTree_congr (o o' : Oracle) : (t : Tree) →
      (∀ i, i < (walkTree o' t).1.length → o i = o' i) → walkTree o t = walkTree o' t
    | .node s v kids, h => by
      rw [walkTree_node, visit_length] at h
      rw [walkTree_node, walkTree_node]
      apply visit_congr
      · exact h 0 (by omega)
      · intro he
        simp only [he, ↓reduceIte] at h
        rw [walkForest, walkForest, walkKids_congr (o.drop 1) (o'.drop 1) kids]
        intro i hi
        simp only [walkForest, absorbBreak] at h
        exact h (1 + i) (by omega)
      · apply h
        split <;> omega
  theorem walkKids_congr (o o' : Oracle) : (f : Forest) →
      (∀ i, i < (walkKids o' f).1.length → o i = o' i) → walkKids o f = walkKids o' f
    | .nil, _ => by simp
    | .cons t ts, h => by
      rw [walkKids_cons] at h
      rw [walkKids_cons, walkKids_cons]
      have ht : walkTree o t = walkTree o' t := by
        apply walkTree_congr
        intro i hi
        apply h
        split
        · simp; omega
        · exact hi
      rw [ht]
      by_cases hr : (walkTree o' t).2 = .ok
      · simp only [hr, ↓reduceIte] at h ⊢
        rw [walkKids_congr (o.drop _) (o'.drop _) ts]
        intro i hi
        simp only [List.length_append] at h
        exact h _ (by omega)
      · simp [hr]
end

theorem walkTree_eq_cont (o : Oracle) (t : Tree)
    (h : ∀ i, i < (walkTree Oracle.cont t).1.length → o i = .ok) :
    walkTree o t = walkTree Oracle.cont t :=
  walkTree_congr o _ t h

theorem walkKids_eq_cont (o : Oracle) (f : Forest)
    (h : ∀ i, i < (walkKids Oracle.cont f).1.length → o i = .ok) :
    walkKids o f = walkKids Oracle.cont f :=
  walkKids_congr o _ f h

/-! ## Terminate / error: the walk stops, only the pending pops follow -/

/-- Terminate or a real error: never absorbed on the way up. -/
def Res.Hard : Res → Prop
  | .term => True
  | .err _ => True
  | _ => False

theorem amend_hard_right {c : Res} (p : Res) (h : c.Hard) : (amend p c).Hard := by
  cases c <;> cases p <;> simp_all [amend, Res.Hard]

theorem amend_hard_left {p : Res} (c : Res) (h : p.Hard) : (amend p c).Hard := by
  cases c <;> cases p <;> simp_all [amend, Res.Hard]

theorem amend_ok_hard {c : Res} (h : c.Hard) : amend .ok c = c := by
  cases c <;> simp_all [amend, Res.Hard]

theorem Res.Hard.ne_ok {r : Res} (h : r.Hard) : r ≠ .ok := by
  cases r <;> simp_all [Res.Hard]

theorem Res.Hard.ne_brk {r : Res} (h : r.Hard) : r ≠ .brk := by
  cases r <;> simp_all [Res.Hard]

def Event.isPop : Event → Bool
  | .pop _ _ => true
  | .push _ _ => false

theorem visit_of_ok {o : Oracle} (h : o 0 = .ok) (s : Step) (v : Val) (sub : Out) :
    visit o s v sub = (Event.push s v :: (sub.1 ++ [Event.pop s v]), amend sub.2 (o (1 + sub.1.length))) := by
  simp [visit, h]

theorem visit_of_not_ok {o : Oracle} (h : amend .ok (o 0) ≠ .ok) (s : Step) (v : Val) (sub : Out) :
    visit o s v sub = ([Event.push s v, Event.pop s v], amend (amend .ok (o 0)) (o 1)) := by
  simp [visit, h]

/-- `o` answers nil to the first `k` callbacks and Terminate or an error to callback `k`. -/
def StopsAt (o : Oracle) (k : Nat) : Prop := (∀ i, i < k → o i = .ok) ∧ (o k).Hard

theorem StopsAt.drop {o : Oracle} {k n : Nat} (h : StopsAt o k) (hn : n ≤ k) :
    StopsAt (o.drop n) (k - n) := by
  constructor
  · intro i hi
    exact h.1 (n + i) (by omega)
  · have : n + (k - n) = k := by omega
    simp only [Oracle.drop, this]
    exact h.2

mutual
  theorem walkTree_stop (o : Oracle) (k : Nat) : (t : Tree) → StopsAt o k →
      k < (walkTree Oracle.cont t).1.length →
      ∃ p q c, (walkTree Oracle.cont t).1 = p ++ q ∧ p.length = k + 1 ∧
        (walkTree o t).1 = p ++ c ∧ c.all Event.isPop = true ∧ (walkTree o t).2.Hard
    | .node s v kids, hs, hk => by
      rw [contTree_fst] at hk ⊢
      simp only [List.length_cons, List.length_append, List.length_nil] at hk
      rw [walkTree_node]
      rcases Nat.eq_zero_or_pos k with hk0 | hkpos
      · -- the push of this node is answered with Terminate / error
        subst hk0
        have hh : (o 0).Hard := hs.2
        have hne : amend .ok (o 0) ≠ .ok := by rw [amend_ok_hard hh]; exact hh.ne_ok
        rw [visit_of_not_ok hne]
        refine ⟨[Event.push s v], (walkKids Oracle.cont kids).1 ++ [Event.pop s v], [Event.pop s v],
          by simp, by simp, by simp, by simp [Event.isPop], ?_⟩
        exact amend_hard_left _ (amend_hard_right _ hh)
      · have h0 : o 0 = .ok := hs.1 0 hkpos
        rw [visit_of_ok h0]
        by_cases hin : k - 1 < (walkKids Oracle.cont kids).1.length
        · -- inside the children
          obtain ⟨p, q, c, hfull, hlen, hev, hc, hhard⟩ :=
            walkKids_stop (o.drop 1) (k - 1) kids (hs.drop (by omega)) hin
          have hsub : walkForest (o.drop 1) kids = (p ++ c, (walkKids (o.drop 1) kids).2) := by
            rw [walkForest, absorbBreak, if_neg hhard.ne_brk, ← hev]
          rw [hsub]
          refine ⟨Event.push s v :: p, q ++ [Event.pop s v], c ++ [Event.pop s v], ?_, ?_, ?_, ?_, ?_⟩
          · rw [hfull]; simp
          · simp; omega
          · simp
          · simp [hc, Event.isPop]
          · exact amend_hard_left _ hhard
        · -- the pop of this node
          have hkeq : k = (walkKids Oracle.cont kids).1.length + 1 := by omega
          have hkids : walkKids (o.drop 1) kids = walkKids Oracle.cont kids := by
            apply walkKids_eq_cont
            intro i hi
            exact hs.1 (1 + i) (by omega)
          have hsub : walkForest (o.drop 1) kids = ((walkKids Oracle.cont kids).1, .ok) := by
            rw [walkForest, absorbBreak, hkids, contKids_snd]; simp
          rw [hsub]
          refine ⟨Event.push s v :: ((walkKids Oracle.cont kids).1 ++ [Event.pop s v]), [], [],
            by simp, by simp; omega, by simp, by simp, ?_⟩
          have : 1 + (walkKids Oracle.cont kids).1.length = k := by omega
          simp only [this]
          exact amend_hard_right _ hs.2
  theorem walkKids_stop (o : Oracle) (k : Nat) : (f : Forest) → StopsAt o k →
      k < (walkKids Oracle.cont f).1.length →
      ∃ p q c, (walkKids Oracle.cont f).1 = p ++ q ∧ p.length = k + 1 ∧
        (walkKids o f).1 = p ++ c ∧ c.all Event.isPop = true ∧ (walkKids o f).2.Hard
    | .nil, _, hk => by simp at hk
    | .cons t ts, hs, hk => by
      rw [contKids_fst] at hk ⊢
      simp only [List.length_append] at hk
      rw [walkKids_cons]
      by_cases hin : k < (walkTree Oracle.cont t).1.length
      · obtain ⟨p, q, c, hfull, hlen, hev, hc, hhard⟩ := walkTree_stop o k t hs hin
        rw [if_neg hhard.ne_ok]
        exact ⟨p, q ++ (walkKids Oracle.cont ts).1, c, by rw [hfull]; simp, hlen, hev, hc, hhard⟩
      · have ht : walkTree o t = walkTree Oracle.cont t := by
          apply walkTree_eq_cont
          intro i hi
          exact hs.1 i (by omega)
        rw [ht, if_pos (contTree_snd t)]
        obtain ⟨p, q, c, hfull, hlen, hev, hc, hhard⟩ :=
          walkKids_stop (o.drop (walkTree Oracle.cont t).1.length) (k - (walkTree Oracle.cont t).1.length) ts
            (hs.drop (by omega)) (by omega)
        refine ⟨(walkTree Oracle.cont t).1 ++ p, q, c, ?_, ?_, ?_, hc, hhard⟩
        · rw [hfull]; simp
        · simp; omega
        · simp only []; rw [hev]; simp
end

/-! ## Break -/

def StartsWithPop : List Event → Prop
  | .pop _ _ :: _ => True
  | _ => False

/-- How the events `evs` of a walk whose callback `k` (and only that one) answers Break relate to
the events `full` of the undisturbed walk.  `post` is what follows the enclosing iteration.

* `atPush`: callback `k` is the push of a value `(s, v)`: everything inside it (`sub`) and all its
  later siblings with everything inside them (`sibs`) is missing; its own pop is still made.
* `atPop`: callback `k` is the pop of a value: all its later siblings (`sibs`) are missing. -/
inductive Skip (full evs post : List Event) (k : Nat) : Prop
  | atPush (pre sub sibs : List Event) (s : Step) (v : Val) :
      pre.length = k →
      full = pre ++ Event.push s v :: (sub ++ Event.pop s v :: (sibs ++ post)) →
      Dyck sub → Dyck sibs →
      evs = pre ++ Event.push s v :: Event.pop s v :: post →
      Skip full evs post k
  | atPop (pre sibs : List Event) (s : Step) (v : Val) :
      pre.length = k →
      full = pre ++ Event.pop s v :: (sibs ++ post) →
      Dyck sibs →
      evs = pre ++ Event.pop s v :: post →
      Skip full evs post k

theorem Skip.length_gt {full evs post : List Event} {k : Nat} (h : Skip full evs post k) :
    k < evs.length := by
  cases h with
  | atPush pre sub sibs s v hl _ _ _ he => subst he; simp; omega
  | atPop pre sibs s v hl _ _ he => subst he; simp; omega

/-- more siblings after the enclosing iteration's end are skipped as well -/
theorem Skip.extend_sibs {full evs : List Event} {k : Nat} (h : Skip full evs [] k)
    {more : List Event} (hm : Dyck more) : Skip (full ++ more) evs [] k := by
  cases h with
  | atPush pre sub sibs s v hl hf hd1 hd2 he =>
    exact Skip.atPush pre sub (sibs ++ more) s v hl (by rw [hf]; simp) hd1 (Dyck.append hd2 hm) he
  | atPop pre sibs s v hl hf hd he =>
    exact Skip.atPop pre (sibs ++ more) s v hl (by rw [hf]; simp) (Dyck.append hd hm) he

theorem Skip.append_post {full evs post : List Event} {k : Nat} (h : Skip full evs post k)
    (more : List Event) : Skip (full ++ more) (evs ++ more) (post ++ more) k := by
  cases h with
  | atPush pre sub sibs s v hl hf hd1 hd2 he =>
    exact Skip.atPush pre sub sibs s v hl (by rw [hf]; simp) hd1 hd2 (by rw [he]; simp)
  | atPop pre sibs s v hl hf hd he =>
    exact Skip.atPop pre sibs s v hl (by rw [hf]; simp) hd (by rw [he]; simp)

theorem Skip.prepend {full evs post : List Event} {k : Nat} (h : Skip full evs post k)
    (before : List Event) : Skip (before ++ full) (before ++ evs) post (before.length + k) := by
  cases h with
  | atPush pre sub sibs s v hl hf hd1 hd2 he =>
    exact Skip.atPush (before ++ pre) sub sibs s v (by simp [hl]) (by rw [hf]; simp) hd1 hd2 (by rw [he]; simp)
  | atPop pre sibs s v hl hf hd he =>
    exact Skip.atPop (before ++ pre) sibs s v (by simp [hl]) (by rw [hf]; simp) hd (by rw [he]; simp)

theorem StartsWithPop.append {a : List Event} (h : StartsWithPop a) (b : List Event) :
    StartsWithPop (a ++ b) := by
  cases a with
  | nil => simp [StartsWithPop] at h
  | cons e r => cases e <;> simp_all [StartsWithPop]

/-- Callback `k` answers Break, every other callback answers nil. -/
def BreaksAt (o : Oracle) (k : Nat) : Prop := o k = .brk ∧ ∀ i, i ≠ k → o i = .ok

theorem BreaksAt.drop {o : Oracle} {k n : Nat} (h : BreaksAt o k) (hn : n ≤ k) :
    BreaksAt (o.drop n) (k - n) := by
  constructor
  · have : n + (k - n) = k := by omega
    simp only [Oracle.drop, this]
    exact h.1
  · intro i hi
    exact h.2 (n + i) (by omega)

theorem BreaksAt.drop_cont {o : Oracle} {k n : Nat} (h : BreaksAt o k) (hn : k < n) :
    o.drop n = Oracle.cont := by
  funext i
  simp only [Oracle.drop, cont_apply]
  exact h.2 (n + i) (by omega)

theorem contKids_dyck (f : Forest) : Dyck (walkKids Oracle.cont f).1 :=
  (walkKids_trace Oracle.cont f).dyck

theorem contTree_dyck (t : Tree) : Dyck (walkTree Oracle.cont t).1 :=
  (walkTree_trace' Oracle.cont t).dyck

/-- outcome of a sub-walk in which one callback answered Break: either the Break is this walk's
own result (`post = []`: the walk ended there) or it was absorbed further down -/
def BreakOutcome (full : List Event) (r : Out) (k : Nat) : Prop :=
  (r.2 = .brk ∧ Skip full r.1 [] k) ∨
  (r.2 = .ok ∧ ∃ post, StartsWithPop post ∧ Skip full r.1 post k)

mutual
  theorem walkTree_break (o : Oracle) (k : Nat) : (t : Tree) → BreaksAt o k →
      k < (walkTree Oracle.cont t).1.length →
      BreakOutcome (walkTree Oracle.cont t).1 (walkTree o t) k
    | .node s v kids, hb, hk => by
      rw [contTree_fst] at hk ⊢
      simp only [List.length_cons, List.length_append, List.length_nil] at hk
      rw [walkTree_node]
      rcases Nat.eq_zero_or_pos k with hk0 | hkpos
      · -- Break from the push of this node
        subst hk0
        have hne : amend .ok (o 0) ≠ .ok := by rw [hb.1]; simp [amend]
        rw [visit_of_not_ok hne]
        left
        refine ⟨?_, Skip.atPush [] (walkKids Oracle.cont kids).1 [] s v rfl (by simp)
          (contKids_dyck kids) Dyck.nil (by simp)⟩
        simp only []
        rw [hb.1, hb.2 1 (by omega)]
        simp [amend]
      · have h0 : o 0 = .ok := hb.2 0 (by omega)
        rw [visit_of_ok h0]
        by_cases hin : k - 1 < (walkKids Oracle.cont kids).1.length
        · -- Break somewhere inside the children: absorbed at the latest by this node's walkForest
          have ih := walkKids_break (o.drop 1) (k - 1) kids (hb.drop (by omega)) hin
          have key : ∃ post, (post = [] ∨ StartsWithPop post) ∧
              Skip (walkKids Oracle.cont kids).1 (walkForest (o.drop 1) kids).1 post (k - 1) ∧
              (walkForest (o.drop 1) kids).2 = .ok := by
            rcases ih with ⟨hr, hs⟩ | ⟨hr, post, hp, hs⟩
            · exact ⟨[], Or.inl rfl, by simpa [walkForest, absorbBreak] using hs, by simp [walkForest, absorbBreak, hr]⟩
            · exact ⟨post, Or.inr hp, by simpa [walkForest, absorbBreak] using hs, by simp [walkForest, absorbBreak, hr]⟩
          obtain ⟨post, hpost, hs, hr⟩ := key
          right
          have hlen := hs.length_gt
          constructor
          · simp only [hr]
            rw [hb.2 _ (by omega)]
            simp
          · refine ⟨post ++ [Event.pop s v], ?_, ?_⟩
            · rcases hpost with rfl | hp
              · simp [StartsWithPop]
              · exact hp.append _
            · have h1 := (hs.append_post [Event.pop s v]).prepend [Event.push s v]
              have hk1 : [Event.push s v].length + (k - 1) = k := by simp; omega
              rw [hk1] at h1
              simpa using h1
        · -- Break from the pop of this node
          have hkeq : k = (walkKids Oracle.cont kids).1.length + 1 := by omega
          have hkids : walkKids (o.drop 1) kids = walkKids Oracle.cont kids := by
            apply walkKids_eq_cont
            intro i hi
            exact hb.2 (1 + i) (by omega)
          have hsub : walkForest (o.drop 1) kids = ((walkKids Oracle.cont kids).1, .ok) := by
            rw [walkForest, absorbBreak, hkids, contKids_snd]; simp
          rw [hsub]
          left
          have hk' : 1 + (walkKids Oracle.cont kids).1.length = k := by omega
          constructor
          · simp only [hk', hb.1]
            simp [amend]
          · exact Skip.atPop (Event.push s v :: (walkKids Oracle.cont kids).1) [] s v
              (by simp; omega) (by simp) Dyck.nil (by simp)
  theorem walkKids_break (o : Oracle) (k : Nat) : (f : Forest) → BreaksAt o k →
      k < (walkKids Oracle.cont f).1.length →
      BreakOutcome (walkKids Oracle.cont f).1 (walkKids o f) k
    | .nil, _, hk => by simp at hk
    | .cons t ts, hb, hk => by
      rw [contKids_fst] at hk ⊢
      simp only [List.length_append] at hk
      rw [walkKids_cons]
      by_cases hin : k < (walkTree Oracle.cont t).1.length
      · rcases walkTree_break o k t hb hin with ⟨hr, hs⟩ | ⟨hr, post, hp, hs⟩
        · -- this child's result is Break: the iteration ends, the remaining siblings are skipped
          left
          have hne : (walkTree o t).2 ≠ .ok := by rw [hr]; simp
          rw [if_neg hne]
          exact ⟨hr, hs.extend_sibs (contKids_dyck ts)⟩
        · -- absorbed inside this child: the iteration goes on undisturbed
          right
          rw [if_pos hr]
          have hlen := hs.length_gt
          rw [hb.drop_cont hlen]
          refine ⟨contKids_snd ts, post ++ (walkKids Oracle.cont ts).1, hp.append _, ?_⟩
          exact hs.append_post _
      · have ht : walkTree o t = walkTree Oracle.cont t := by
          apply walkTree_eq_cont
          intro i hi
          exact hb.2 i (by omega)
        rw [ht, if_pos (contTree_snd t)]
        have ih := walkKids_break (o.drop (walkTree Oracle.cont t).1.length)
          (k - (walkTree Oracle.cont t).1.length) ts (hb.drop (by omega)) (by omega)
        have hk' : (walkTree Oracle.cont t).1.length + (k - (walkTree Oracle.cont t).1.length) = k := by omega
        rcases ih with ⟨hr, hs⟩ | ⟨hr, post, hp, hs⟩
        · left
          refine ⟨hr, ?_⟩
          have := hs.prepend (walkTree Oracle.cont t).1
          rwa [hk'] at this
        · right
          refine ⟨hr, post, hp, ?_⟩
          have := hs.prepend (walkTree Oracle.cont t).1
          rwa [hk'] at this
end

/-! ## Step consistency: every reported value is the step applied to the parent value -/

/-- Replays the events against the stack `protopath.Values` holds: a push must report the value
obtained by applying its step to the value on top of the stack (`applyStep`), the first push must
be `Root` with the message itself, a pop must report the step and value pushed last, and the
stack must be empty at the end. -/
inductive StackOK (m : Msg) : List (Step × Val) → List Event → Prop
  | done : StackOK m [] []
  | root {rest : List Event} :
      StackOK m [(Step.root m.ty, Val.msg m)] rest →
      StackOK m [] (Event.push (.root m.ty) (.msg m) :: rest)
  | push {p : Step × Val} {stk : List (Step × Val)} {s : Step} {v : Val} {rest : List Event} :
      applyStep p.2 s = some v → StackOK m ((s, v) :: p :: stk) rest →
      StackOK m (p :: stk) (Event.push s v :: rest)
  | pop {s : Step} {v : Val} {stk : List (Step × Val)} {rest : List Event} :
      StackOK m stk rest → StackOK m ((s, v) :: stk) (Event.pop s v :: rest)

/- every child hangs off its parent by `applyStep` -/
mutual
  def CohKids (p : Val) : Forest → Prop
    | .nil => True
    | .cons t ts => CohTree p t ∧ CohKids p ts
  def CohTree (p : Val) : Tree → Prop
    | .node s v kids => applyStep p s = some v ∧ CohKids v kids
end

theorem Trace.stackOK {m : Msg} {f : Forest} {w : List Event} (h : Trace f w) :
    ∀ (p : Step × Val) (stk : List (Step × Val)) (rest : List Event),
      CohKids p.2 f → StackOK m (p :: stk) rest → StackOK m (p :: stk) (w ++ rest) := by
  induction h with
  | stop => intro p stk rest _ hb; simpa using hb
  | @visit s v kids ts w rest' _ _ ih1 ih2 =>
    intro p stk rest hc hb
    simp only [CohKids, CohTree] at hc
    obtain ⟨⟨happ, hkids⟩, hts⟩ := hc
    simp only [List.cons_append, List.append_assoc]
    exact StackOK.push happ (ih1 (s, v) (p :: stk) _ hkids (StackOK.pop (ih2 p stk rest hts hb)))

theorem walkTree_inner (o : Oracle) (s : Step) (v : Val) (kids : Forest) :
    ∃ w, (walkTree o (.node s v kids)).1 = Event.push s v :: (w ++ [Event.pop s v]) ∧ Trace kids w := by
  rw [walkTree_node, visit_fst]
  refine ⟨_, rfl, ?_⟩
  split
  · exact walkKids_trace (o.drop 1) kids
  · exact Trace.stop _

theorem Fields.lookup_gt {n k : Nat} {v : Val} : (fs : Fields) →
    Fields.allGt n fs = true → Fields.lookup k fs = some v → n < k
  | .nil, _, h => by simp [Fields.lookup] at h
  | .cons num v' rest, hg, h => by
    simp only [Fields.allGt, Bool.and_eq_true, decide_eq_true_eq] at hg
    simp only [Fields.lookup] at h
    split at h
    · omega
    · exact Fields.lookup_gt rest hg.2 h

theorem ltBytes_irrefl : (a : List Nat) → ltBytes a a = false
  | [] => rfl
  | x :: r => by simp [ltBytes, ltBytes_irrefl r]

theorem Key.lt_irrefl (k : Key) : Key.lt k k = false := by
  cases k <;> simp [Key.lt, ltBytes_irrefl]

theorem Entries.lookup_gt {k k' : Key} {e : Elem} : (kvs : Entries) →
    Entries.allGt k kvs = true → Entries.lookup k' kvs = some e → Key.lt k k' = true
  | .nil, _, h => by simp [Entries.lookup] at h
  | .cons k2 e' rest, hg, h => by
    simp only [Entries.allGt, Bool.and_eq_true] at hg
    simp only [Entries.lookup] at h
    split at h
    · next heq => rw [← heq]; exact hg.1
    · exact Entries.lookup_gt rest hg.2 h

theorem cohUnknown (ty : String) (fs : Fields) (unk : List Nat) :
    CohKids (.msg (.plain ty fs unk)) (unknownKids unk) := by
  unfold unknownKids
  split
  · next h => simp [CohKids, CohTree, applyStep, h]
  · simp [CohKids]

mutual
  theorem cohMsg : (m : Msg) → wfMsg m = true → CohKids (.msg m) (kidsMsg m)
    | .any ty fs unk body, h => by
      simp only [wfMsg, Bool.and_eq_true] at h
      simp only [kidsMsg, CohKids, CohTree, applyStep, ↓reduceIte, and_true, true_and]
      exact cohMsg body h.2
    | .plain ty fs unk, h => by
      simp only [wfMsg] at h
      rw [kidsMsg]
      exact cohFields _ fs _ h (fun n v hl => by simp [applyStep, hl]) (cohUnknown ty fs unk)
  theorem cohFields (p : Val) : (fs : Fields) → (tail : Forest) → wfFields fs = true →
      (∀ n v, Fields.lookup n fs = some v → applyStep p (.field n) = some v) →
      CohKids p tail → CohKids p (kidsFields fs tail)
    | .nil, tail, _, _, ht => by simpa [kidsFields] using ht
    | .cons num v rest, tail, h, hl, ht => by
      simp only [wfFields, Bool.and_eq_true] at h
      simp only [kidsFields, CohKids, CohTree]
      refine ⟨⟨hl num v (by simp [Fields.lookup]), cohVal v h.1.2⟩, ?_⟩
      refine cohFields p rest tail h.2 (fun n v' hn => hl n v' ?_) ht
      have := Fields.lookup_gt rest h.1.1 hn
      simp only [Fields.lookup]
      rw [if_neg (by omega)]
      exact hn
  theorem cohVal : (v : Val) → wfVal v = true → CohKids v (kidsVal v)
    | .scalar _, _ => by simp [kidsVal, CohKids]
    | .msg m, h => by
      simp only [wfVal] at h
      rw [kidsVal]; exact cohMsg m h
    | .list es, h => by
      simp only [wfVal] at h
      rw [kidsVal]
      exact cohElems _ 0 es h (fun j e hj => by simp [applyStep, hj])
    | .map kvs, h => by
      simp only [wfVal] at h
      rw [kidsVal]
      exact cohEntries _ kvs h (fun k e hk => by simp [applyStep, hk])
  theorem cohElems (p : Val) (i : Nat) : (es : Elems) → wfElems es = true →
      (∀ j e, Elems.get? es j = some e → applyStep p (.listIndex (i + j)) = some e.toVal) →
      CohKids p (kidsElems i es)
    | .nil, _, _ => by simp [kidsElems, CohKids]
    | .cons e rest, h, hl => by
      simp only [wfElems, Bool.and_eq_true] at h
      simp only [kidsElems, CohKids, CohTree]
      refine ⟨⟨by simpa using hl 0 e (by simp [Elems.get?]), cohElem e h.1⟩, ?_⟩
      refine cohElems p (i + 1) rest h.2 (fun j e' hj => ?_)
      have := hl (j + 1) e' (by simp [Elems.get?, hj])
      have he : i + (j + 1) = i + 1 + j := by omega
      rwa [he] at this
  theorem cohElem : (e : Elem) → wfElem e = true → CohKids e.toVal (kidsElem e)
    | .scalar _, _ => by simp [kidsElem, CohKids]
    | .msg m, h => by
      simp only [wfElem] at h
      rw [kidsElem, Elem.toVal]; exact cohMsg m h
  theorem cohEntries (p : Val) : (kvs : Entries) → wfEntries kvs = true →
      (∀ k e, Entries.lookup k kvs = some e → applyStep p (.mapIndex k) = some e.toVal) →
      CohKids p (kidsEntries kvs)
    | .nil, _, _ => by simp [kidsEntries, CohKids]
    | .cons k e rest, h, hl => by
      simp only [wfEntries, Bool.and_eq_true] at h
      simp only [kidsEntries, CohKids, CohTree]
      refine ⟨⟨hl k e (by simp [Entries.lookup]), cohElem e h.1.2⟩, ?_⟩
      refine cohEntries p rest h.2 (fun k' e' hk => hl k' e' ?_)
      have hlt := Entries.lookup_gt rest h.1.1 hk
      simp only [Entries.lookup]
      have hne : k ≠ k' := by
        intro heq
        rw [heq, Key.lt_irrefl] at hlt
        exact absurd hlt (by simp)
      rw [if_neg hne]
      exact hk
end

/-! ## The pre-order of the populated-value tree, written on messages -/

theorem preKids_append : (f g : Forest) → preKids (Forest.append f g) = preKids f ++ preKids g
  | .nil, g => by simp [Forest.append, preKids]
  | .cons t ts, g => by simp [Forest.append, preKids, preKids_append ts g]

mutual
  theorem preKids_kidsMsg : (m : Msg) → preKids (kidsMsg m) = preMsg m
    | .any _ _ _ body => by
      simp [kidsMsg, preKids, preTree, preMsg, preKids_kidsMsg body]
    | .plain _ fs unk => by
      rw [kidsMsg, preMsg, preKids_kidsFields fs]
      congr 1
      unfold unknownKids
      split <;> simp [preKids, preTree]
  theorem preKids_kidsFields : (fs : Fields) → (tail : Forest) →
      preKids (kidsFields fs tail) = preFields fs ++ preKids tail
    | .nil, tail => by simp [kidsFields, preFields]
    | .cons num v rest, tail => by
      simp [kidsFields, preKids, preTree, preFields, preKids_kidsVal v, preKids_kidsFields rest tail]
  theorem preKids_kidsVal : (v : Val) → preKids (kidsVal v) = preVal v
    | .scalar _ => by simp [kidsVal, preKids, preVal]
    | .msg m => by rw [kidsVal, preVal, preKids_kidsMsg m]
    | .list es => by rw [kidsVal, preVal, preKids_kidsElems 0 es]
    | .map kvs => by rw [kidsVal, preVal, preKids_kidsEntries kvs]
  theorem preKids_kidsElems (i : Nat) : (es : Elems) → preKids (kidsElems i es) = preElems i es
    | .nil => by simp [kidsElems, preKids, preElems]
    | .cons e rest => by
      simp [kidsElems, preKids, preTree, preElems, preKids_kidsElem e, preKids_kidsElems (i + 1) rest]
  theorem preKids_kidsElem : (e : Elem) → preKids (kidsElem e) = preElem e
    | .scalar _ => by simp [kidsElem, preKids, preElem]
    | .msg m => by rw [kidsElem, preElem, preKids_kidsMsg m]
  theorem preKids_kidsEntries : (kvs : Entries) → preKids (kidsEntries kvs) = preEntries kvs
    | .nil => by simp [kidsEntries, preKids, preEntries]
    | .cons k e rest => by
      simp [kidsEntries, preKids, preTree, preEntries, preKids_kidsElem e, preKids_kidsEntries rest]
end

/-! ## Which error a walk returns -/

theorem amend_cases (p c : Res) : amend p c = p ∨ amend p c = c := by
  cases c <;> cases p <;> simp [amend]

/-- the result is nil or something a callback returned -/
def FromOracle (o : Oracle) (r : Res) : Prop := r = .ok ∨ ∃ i, o i = r

theorem FromOracle.of_drop {o : Oracle} {n : Nat} {r : Res} (h : FromOracle (o.drop n) r) :
    FromOracle o r := by
  rcases h with h | ⟨i, hi⟩
  · exact Or.inl h
  · exact Or.inr ⟨n + i, hi⟩

theorem visit_fromOracle (o : Oracle) (s : Step) (v : Val) (sub : Out)
    (h : FromOracle (o.drop 1) sub.2) : FromOracle o (visit o s v sub).2 := by
  simp only [visit]
  rcases amend_cases (if amend .ok (o 0) = .ok then sub else ([], amend .ok (o 0))).2
    (o (1 + (if amend .ok (o 0) = .ok then sub else ([], amend .ok (o 0))).1.length)) with h1 | h1
  · rw [h1]
    split
    · exact h.of_drop
    · rcases amend_cases .ok (o 0) with h2 | h2
      · exact Or.inl h2
      · exact Or.inr ⟨0, h2.symm⟩
  · rw [h1]
    exact Or.inr ⟨_, rfl⟩

theorem absorbBreak_fromOracle {o : Oracle} {r : Out} (h : FromOracle o r.2) :
    FromOracle o (absorbBreak r).2 := by
  simp only [absorbBreak]
  split
  · exact Or.inl rfl
  · exact h

mutual
  theorem walkTree_fromOracle (o : Oracle) : (t : Tree) → FromOracle o (walkTree o t).2
    | .node s v kids => by
      rw [walkTree_node]
      exact visit_fromOracle o s v _ (absorbBreak_fromOracle (walkKids_fromOracle (o.drop 1) kids))
  theorem walkKids_fromOracle (o : Oracle) : (f : Forest) → FromOracle o (walkKids o f).2
    | .nil => by simp [FromOracle]
    | .cons t ts => by
      rw [walkKids_cons]
      split
      · exact (walkKids_fromOracle _ ts).of_drop
      · exact walkTree_fromOracle o t
end

/-! ## The pops that follow a stop are exactly the pending ones -/

/-- The stack machine of the callbacks' caller: `none` when a pop does not match the last push. -/
def exec : List (Step × Val) → List Event → Option (List (Step × Val))
  | stk, [] => some stk
  | stk, .push s v :: r => exec ((s, v) :: stk) r
  | [], .pop _ _ :: _ => none
  | (s', v') :: stk, .pop s v :: r => if s' = s ∧ v' = v then exec stk r else none

theorem exec_append (stk : List (Step × Val)) (a b : List Event) :
    exec stk (a ++ b) = (exec stk a).bind (fun stk' => exec stk' b) := by
  induction a generalizing stk with
  | nil => simp [exec]
  | cons e r ih =>
    cases e with
    | push s v => simp [exec, ih]
    | pop s v =>
      cases stk with
      | nil => simp [exec]
      | cons top stk =>
        obtain ⟨s', v'⟩ := top
        simp only [List.cons_append, exec]
        split
        · exact ih stk
        · simp

theorem Dyck.exec {w : List Event} (h : Dyck w) : ∀ stk, exec stk w = some stk := by
  induction h with
  | nil => intro stk; simp [Model.Range.exec]
  | @node s v w _ ih =>
    intro stk
    simp [Model.Range.exec, exec_append, ih]
  | append _ _ iha ihb =>
    intro stk
    simp [exec_append, iha, ihb]

/-- the open pushes (innermost first) after a prefix of a walk -/
def pending : List (Step × Val) → List Event → List (Step × Val)
  | stk, [] => stk
  | stk, .push s v :: r => pending ((s, v) :: stk) r
  | stk, .pop _ _ :: r => pending stk.tail r

theorem exec_pending {stk stk' : List (Step × Val)} {p : List Event} (h : exec stk p = some stk') :
    pending stk p = stk' := by
  induction p generalizing stk with
  | nil => simpa [exec, pending] using h
  | cons e r ih =>
    cases e with
    | push s v => simp only [exec] at h; simpa [pending] using ih h
    | pop s v =>
      cases stk with
      | nil => simp [exec] at h
      | cons top stk =>
        obtain ⟨s', v'⟩ := top
        simp only [exec] at h
        split at h
        · simpa [pending] using ih h
        · simp at h

theorem exec_allPops {stk : List (Step × Val)} {c : List Event}
    (hc : c.all Event.isPop = true) (h : exec stk c = some []) :
    c = stk.map (fun sv => Event.pop sv.1 sv.2) := by
  induction c generalizing stk with
  | nil => simp [exec] at h; simp [h]
  | cons e r ih =>
    cases e with
    | push s v => simp [Event.isPop] at hc
    | pop s v =>
      cases stk with
      | nil => simp [exec] at h
      | cons top stk =>
        obtain ⟨s', v'⟩ := top
        simp only [exec] at h
        simp only [List.all_cons, Bool.and_eq_true] at hc
        split at h
        · next heq => simp [heq.1, heq.2, ih hc.2 h]
        · simp at h

/-- In a balanced word `p ++ c` whose tail `c` consists of pops, `c` pops exactly what `p` left open. -/
theorem closers_unique {p c : List Event} (hd : Dyck (p ++ c)) (hc : c.all Event.isPop = true) :
    c = (pending [] p).map (fun sv => Event.pop sv.1 sv.2) := by
  have h := hd.exec []
  rw [exec_append] at h
  cases hp : exec [] p with
  | none => simp [hp] at h
  | some stk =>
    simp only [hp, Option.bind_some] at h
    rw [exec_pending hp]
    exact exec_allPops hc h

/-! ## Every oracle: after a Terminate / error answer only pops follow -/

theorem absorbBreak_hard {r : Out} (h : r.2.Hard) : (absorbBreak r).2.Hard := by
  simp only [absorbBreak]
  rw [if_neg h.ne_brk]
  exact h

mutual
  theorem walkTree_hard (o : Oracle) (k : Nat) : (t : Tree) →
      k < (walkTree o t).1.length → (o k).Hard →
      ((walkTree o t).1.drop (k + 1)).all Event.isPop = true ∧ (walkTree o t).2.Hard
    | .node s v kids, hk, hh => by
      rw [walkTree_node] at hk ⊢
      by_cases he : amend .ok (o 0) = .ok
      · -- the push answered nil (or an absorbed value): the children are walked
        have hv : visit o s v (walkForest (o.drop 1) kids) =
            (Event.push s v :: ((walkForest (o.drop 1) kids).1 ++ [Event.pop s v]),
              amend (walkForest (o.drop 1) kids).2 (o (1 + (walkForest (o.drop 1) kids).1.length))) := by
          simp [visit, he]
        rw [hv] at hk ⊢
        simp only [List.length_cons, List.length_append, List.length_nil] at hk
        rcases Nat.eq_zero_or_pos k with hk0 | hkpos
        · subst hk0
          rw [amend_ok_hard hh] at he
          exact absurd he hh.ne_ok
        · by_cases hin : k - 1 < (walkKids (o.drop 1) kids).1.length
          · have hok : (o.drop 1 (k - 1)).Hard := by
              have : 1 + (k - 1) = k := by omega
              simp only [Oracle.drop, this]; exact hh
            obtain ⟨hp, hr⟩ := walkKids_hard (o.drop 1) (k - 1) kids hin hok
            have hk' : k - 1 + 1 = k := by omega
            rw [hk'] at hp
            constructor
            · have hle : k ≤ (walkForest (o.drop 1) kids).1.length := by
                simp only [walkForest, absorbBreak]; omega
              rw [List.drop_succ_cons, List.drop_append_of_le_length hle]
              simp only [walkForest, absorbBreak] at hp ⊢
              simp [hp, Event.isPop]
            · exact amend_hard_left _ (absorbBreak_hard hr)
          · have hkeq : 1 + (walkForest (o.drop 1) kids).1.length = k := by
              simp only [walkForest, absorbBreak] at hk ⊢; omega
            constructor
            · simp only [List.drop_succ_cons]
              rw [List.drop_of_length_le (by simp; omega)]
              rfl
            · simp only [hkeq]
              exact amend_hard_right _ hh
      · rw [visit_of_not_ok he] at hk ⊢
        simp only [List.length_cons, List.length_nil] at hk
        rcases Nat.eq_zero_or_pos k with hk0 | hkpos
        · subst hk0
          refine ⟨by simp [Event.isPop], amend_hard_left _ ?_⟩
          exact amend_hard_right _ hh
        · have : k = 1 := by omega
          subst this
          exact ⟨by simp, amend_hard_right _ hh⟩
  theorem walkKids_hard (o : Oracle) (k : Nat) : (f : Forest) →
      k < (walkKids o f).1.length → (o k).Hard →
      ((walkKids o f).1.drop (k + 1)).all Event.isPop = true ∧ (walkKids o f).2.Hard
    | .nil, hk, _ => by simp at hk
    | .cons t ts, hk, hh => by
      rw [walkKids_cons] at hk ⊢
      by_cases hin : k < (walkTree o t).1.length
      · obtain ⟨hp, hr⟩ := walkTree_hard o k t hin hh
        rw [if_neg hr.ne_ok]
        exact ⟨hp, hr⟩
      · by_cases hr : (walkTree o t).2 = .ok
        · rw [if_pos hr] at hk ⊢
          simp only [List.length_append] at hk
          have hok : (o.drop (walkTree o t).1.length (k - (walkTree o t).1.length)).Hard := by
            have : (walkTree o t).1.length + (k - (walkTree o t).1.length) = k := by omega
            simp only [Oracle.drop, this]; exact hh
          obtain ⟨hp, hr'⟩ := walkKids_hard (o.drop (walkTree o t).1.length)
            (k - (walkTree o t).1.length) ts (by omega) hok
          refine ⟨?_, hr'⟩
          simp only []
          rw [List.drop_append, List.drop_of_length_le (by omega)]
          have : k + 1 - (walkTree o t).1.length = k - (walkTree o t).1.length + 1 := by omega
          simpa [this] using hp
        · rw [if_neg hr] at hk
          exact absurd hk hin
end

/-! ## Every oracle: the walk returns the last real error a callback returned -/

def Res.errCode : Res → Option Nat
  | .err c => some c
  | _ => none

/-- the last real error among the answers, if any -/
def lastErr : List Res → Option Nat
  | [] => none
  | r :: rest => (lastErr rest).or r.errCode

/-- the answers the oracle gives to the first `n` callbacks -/
def answers (o : Oracle) : Nat → List Res
  | 0 => []
  | n + 1 => o 0 :: answers (o.drop 1) n

theorem lastErr_append (a b : List Res) : lastErr (a ++ b) = (lastErr b).or (lastErr a) := by
  induction a with
  | nil => simp [lastErr, Option.or_none]
  | cons r rest ih =>
    simp only [List.cons_append, lastErr, ih]
    cases lastErr b <;> simp

theorem answers_add (o : Oracle) (a b : Nat) :
    answers o (a + b) = answers o a ++ answers (o.drop a) b := by
  induction a generalizing o with
  | zero => simp [answers]
  | succ n ih =>
    have : n + 1 + b = (n + b) + 1 := by omega
    rw [this, answers, answers, ih, drop_drop]
    simp [Nat.add_comm]

theorem errCode_amend (p c : Res) : (amend p c).errCode = c.errCode.or p.errCode := by
  cases c <;> cases p <;> simp [amend, Res.errCode]

theorem errCode_absorbBreak (r : Out) : (absorbBreak r).2.errCode = r.2.errCode := by
  simp only [absorbBreak]
  split
  · next h => rw [h]; rfl
  · rfl

theorem answers_one (o : Oracle) : answers o 1 = [o 0] := by simp [answers]

theorem visit_lastErr (o : Oracle) (s : Step) (v : Val) (sub : Out)
    (hsub : sub.2.errCode = lastErr (answers (o.drop 1) sub.1.length)) :
    (visit o s v sub).2.errCode = lastErr (answers o (visit o s v sub).1.length) := by
  by_cases he : amend .ok (o 0) = .ok
  · have hv : visit o s v sub =
        (Event.push s v :: (sub.1 ++ [Event.pop s v]), amend sub.2 (o (1 + sub.1.length))) := by
      simp [visit, he]
    rw [hv]
    have hlen : (Event.push s v :: (sub.1 ++ [Event.pop s v])).length = 1 + (sub.1.length + 1) := by
      simp; omega
    simp only [hlen]
    rw [answers_add, lastErr_append, answers_add, lastErr_append, drop_drop, answers_one, answers_one,
      errCode_amend, hsub]
    have h0 : (o 0).errCode = none := by
      have := errCode_amend .ok (o 0)
      rw [he] at this
      cases h : (o 0).errCode with
      | none => rfl
      | some x => rw [h] at this; simp [Res.errCode] at this
    simp only [lastErr, Option.none_or, h0, Oracle.drop, Nat.add_zero, Option.or_none]
  · rw [visit_of_not_ok he]
    simp only [List.length_cons, List.length_nil, answers, lastErr, Oracle.drop, Option.none_or]
    rw [errCode_amend, errCode_amend]
    simp [Res.errCode]

mutual
  theorem walkTree_lastErr (o : Oracle) : (t : Tree) →
      (walkTree o t).2.errCode = lastErr (answers o (walkTree o t).1.length)
    | .node s v kids => by
      rw [walkTree_node]
      apply visit_lastErr
      rw [walkForest, errCode_absorbBreak]
      exact walkKids_lastErr (o.drop 1) kids
  theorem walkKids_lastErr (o : Oracle) : (f : Forest) →
      (walkKids o f).2.errCode = lastErr (answers o (walkKids o f).1.length)
    | .nil => by simp [answers, lastErr, Res.errCode]
    | .cons t ts => by
      rw [walkKids_cons]
      split
      · next h =>
        simp only [List.length_append]
        rw [answers_add, lastErr_append, ← walkKids_lastErr (o.drop _) ts, ← walkTree_lastErr o t, h]
        simp [Res.errCode, Option.or_none]
      · exact walkTree_lastErr o t
end

/-! ## Exactly once: every populated value has its own path, and every path is pushed once -/

def Tree.step : Tree → Step
  | .node s _ _ => s

def Forest.steps : Forest → List Step
  | .nil => []
  | .cons t ts => t.step :: Forest.steps ts

/- the paths (step sequences below `pre`) of all nodes, in pre-order -/
mutual
  def pathsTree (pre : List Step) : Tree → List (List Step)
    | .node s _ kids => (pre ++ [s]) :: pathsKids (pre ++ [s]) kids
  def pathsKids (pre : List Step) : Forest → List (List Step)
    | .nil => []
    | .cons t ts => pathsTree pre t ++ pathsKids pre ts
end

/- siblings are reached by pairwise different steps, everywhere in the tree -/
mutual
  def DistinctTree : Tree → Prop
    | .node _ _ kids => DistinctKids kids
  def DistinctKids : Forest → Prop
    | .nil => True
    | .cons t ts => t.step ∉ Forest.steps ts ∧ DistinctTree t ∧ DistinctKids ts
end

mutual
  theorem pathsTree_prefix (pre : List Step) : (t : Tree) → ∀ q, q ∈ pathsTree pre t →
      ∃ r, q = pre ++ t.step :: r
    | .node s v kids, q, hq => by
      simp only [pathsTree, List.mem_cons] at hq
      rcases hq with rfl | hq
      · exact ⟨[], by simp [Tree.step]⟩
      · obtain ⟨s', _, r, hr⟩ := pathsKids_prefix (pre ++ [s]) kids q hq
        exact ⟨s' :: r, by simp [Tree.step, hr]⟩
  theorem pathsKids_prefix (pre : List Step) : (f : Forest) → ∀ q, q ∈ pathsKids pre f →
      ∃ s, s ∈ Forest.steps f ∧ ∃ r, q = pre ++ s :: r
    | .nil, q, hq => by simp [pathsKids] at hq
    | .cons t ts, q, hq => by
      simp only [pathsKids, List.mem_append] at hq
      rcases hq with hq | hq
      · obtain ⟨r, hr⟩ := pathsTree_prefix pre t q hq
        exact ⟨t.step, by simp [Forest.steps], r, hr⟩
      · obtain ⟨s, hs, r, hr⟩ := pathsKids_prefix pre ts q hq
        exact ⟨s, by simp [Forest.steps, hs], r, hr⟩
end

mutual
  theorem pathsTree_nodup (pre : List Step) : (t : Tree) → DistinctTree t → (pathsTree pre t).Nodup
    | .node s v kids, h => by
      simp only [DistinctTree] at h
      simp only [pathsTree, List.nodup_cons]
      refine ⟨?_, pathsKids_nodup (pre ++ [s]) kids h⟩
      intro hmem
      obtain ⟨s', _, r, hr⟩ := pathsKids_prefix (pre ++ [s]) kids _ hmem
      have := congrArg List.length hr
      simp at this
  theorem pathsKids_nodup (pre : List Step) : (f : Forest) → DistinctKids f → (pathsKids pre f).Nodup
    | .nil, _ => by simp [pathsKids]
    | .cons t ts, h => by
      simp only [DistinctKids] at h
      simp only [pathsKids]
      rw [List.nodup_append]
      refine ⟨pathsTree_nodup pre t h.2.1, pathsKids_nodup pre ts h.2.2, ?_⟩
      intro a ha b hb hab
      subst hab
      obtain ⟨r, hr⟩ := pathsTree_prefix pre t a ha
      obtain ⟨s, hs, r', hr'⟩ := pathsKids_prefix pre ts a hb
      rw [hr] at hr'
      have := List.append_cancel_left hr'
      simp only [List.cons.injEq] at this
      exact h.1 (this.1 ▸ hs)
end

/-- The path (steps from the Root step down) reported with each push, replaying the stack. -/
def pushPaths : List Step → List Event → List (List Step)
  | _, [] => []
  | stk, .push s _ :: r => (stk ++ [s]) :: pushPaths (stk ++ [s]) r
  | stk, .pop _ _ :: r => pushPaths stk.dropLast r

mutual
  theorem contTree_pushPaths (stk : List Step) : (t : Tree) → (rest : List Event) →
      pushPaths stk ((walkTree Oracle.cont t).1 ++ rest) = pathsTree stk t ++ pushPaths stk rest
    | .node s v kids, rest => by
      rw [contTree_fst]
      simp only [List.cons_append, List.append_assoc, pushPaths, pathsTree]
      rw [contKids_pushPaths (stk ++ [s]) kids]
      simp [pushPaths]
  theorem contKids_pushPaths (stk : List Step) : (f : Forest) → (rest : List Event) →
      pushPaths stk ((walkKids Oracle.cont f).1 ++ rest) = pathsKids stk f ++ pushPaths stk rest
    | .nil, rest => by simp [pathsKids]
    | .cons t ts, rest => by
      rw [contKids_fst, List.append_assoc, contTree_pushPaths stk t, contKids_pushPaths stk ts, pathsKids]
      simp
end

/-! `wfMsg m` makes the steps of siblings pairwise different -/

theorem steps_unknownKids (unk : List Nat) : ∀ s, s ∈ Forest.steps (unknownKids unk) → s = Step.unknown := by
  intro s hs
  unfold unknownKids at hs
  split at hs <;> simp_all [Forest.steps, Tree.step]

theorem steps_kidsFields : (fs : Fields) → (tail : Forest) → ∀ s, s ∈ Forest.steps (kidsFields fs tail) →
    (∃ n v, s = Step.field n ∧ Fields.lookup n fs = some v) ∨ s ∈ Forest.steps tail
  | .nil, tail, s, hs => by simpa [kidsFields] using Or.inr hs
  | .cons num v rest, tail, s, hs => by
    simp only [kidsFields, Forest.steps, Tree.step, List.mem_cons] at hs
    rcases hs with rfl | hs
    · exact Or.inl ⟨num, v, rfl, by simp [Fields.lookup]⟩
    · rcases steps_kidsFields rest tail s hs with ⟨n, v', rfl, hl⟩ | h
      · by_cases hn : num = n
        · exact Or.inl ⟨n, v, rfl, by simp [Fields.lookup, hn]⟩
        · exact Or.inl ⟨n, v', rfl, by simp [Fields.lookup, hn, hl]⟩
      · exact Or.inr h

theorem steps_kidsElems (i : Nat) : (es : Elems) → ∀ s, s ∈ Forest.steps (kidsElems i es) →
    ∃ j, i ≤ j ∧ s = Step.listIndex j
  | .nil, s, hs => by simp [kidsElems, Forest.steps] at hs
  | .cons e rest, s, hs => by
    simp only [kidsElems, Forest.steps, Tree.step, List.mem_cons] at hs
    rcases hs with rfl | hs
    · exact ⟨i, Nat.le_refl _, rfl⟩
    · obtain ⟨j, hj, rfl⟩ := steps_kidsElems (i + 1) rest s hs
      exact ⟨j, by omega, rfl⟩

theorem steps_kidsEntries : (kvs : Entries) → ∀ s, s ∈ Forest.steps (kidsEntries kvs) →
    ∃ k e, s = Step.mapIndex k ∧ Entries.lookup k kvs = some e
  | .nil, s, hs => by simp [kidsEntries, Forest.steps] at hs
  | .cons k e rest, s, hs => by
    simp only [kidsEntries, Forest.steps, Tree.step, List.mem_cons] at hs
    rcases hs with rfl | hs
    · exact ⟨k, e, rfl, by simp [Entries.lookup]⟩
    · obtain ⟨k', e', rfl, hl⟩ := steps_kidsEntries rest s hs
      by_cases hk : k = k'
      · exact ⟨k', e, rfl, by simp [Entries.lookup, hk]⟩
      · exact ⟨k', e', rfl, by simp [Entries.lookup, hk, hl]⟩

theorem distinct_unknownKids (unk : List Nat) : DistinctKids (unknownKids unk) := by
  unfold unknownKids
  split <;> simp [DistinctKids, DistinctTree, Forest.steps]

mutual
  theorem distinctMsg : (m : Msg) → wfMsg m = true → DistinctKids (kidsMsg m)
    | .any ty fs unk body, h => by
      simp only [wfMsg, Bool.and_eq_true] at h
      simp only [kidsMsg, DistinctKids, DistinctTree, Forest.steps, List.not_mem_nil,
        not_false_eq_true, and_true, true_and]
      exact distinctMsg body h.2
    | .plain ty fs unk, h => by
      simp only [wfMsg] at h
      rw [kidsMsg]
      exact distinctFields fs (unknownKids unk) h (distinct_unknownKids unk)
        (fun n hn => by have := steps_unknownKids unk _ hn; cases this)
  theorem distinctFields : (fs : Fields) → (tail : Forest) → wfFields fs = true → DistinctKids tail →
      (∀ n, Step.field n ∉ Forest.steps tail) → DistinctKids (kidsFields fs tail)
    | .nil, tail, _, ht, _ => by simpa [kidsFields] using ht
    | .cons num v rest, tail, h, ht, hno => by
      simp only [wfFields, Bool.and_eq_true] at h
      simp only [kidsFields, DistinctKids, DistinctTree, Tree.step]
      refine ⟨?_, distinctVal v h.1.2, distinctFields rest tail h.2 ht hno⟩
      intro hmem
      rcases steps_kidsFields rest tail _ hmem with ⟨n, v', heq, hl⟩ | hin
      · cases heq
        have := Fields.lookup_gt rest h.1.1 hl
        omega
      · exact hno num hin
  theorem distinctVal : (v : Val) → wfVal v = true → DistinctKids (kidsVal v)
    | .scalar _, _ => by simp [kidsVal, DistinctKids]
    | .msg m, h => by simp only [wfVal] at h; rw [kidsVal]; exact distinctMsg m h
    | .list es, h => by simp only [wfVal] at h; rw [kidsVal]; exact distinctElems 0 es h
    | .map kvs, h => by simp only [wfVal] at h; rw [kidsVal]; exact distinctEntries kvs h
  theorem distinctElems (i : Nat) : (es : Elems) → wfElems es = true → DistinctKids (kidsElems i es)
    | .nil, _ => by simp [kidsElems, DistinctKids]
    | .cons e rest, h => by
      simp only [wfElems, Bool.and_eq_true] at h
      simp only [kidsElems, DistinctKids, DistinctTree, Tree.step]
      refine ⟨?_, distinctElem e h.1, distinctElems (i + 1) rest h.2⟩
      intro hmem
      obtain ⟨j, hj, heq⟩ := steps_kidsElems (i + 1) rest _ hmem
      cases heq
      omega
  theorem distinctElem : (e : Elem) → wfElem e = true → DistinctKids (kidsElem e)
    | .scalar _, _ => by simp [kidsElem, DistinctKids]
    | .msg m, h => by simp only [wfElem] at h; rw [kidsElem]; exact distinctMsg m h
  theorem distinctEntries : (kvs : Entries) → wfEntries kvs = true → DistinctKids (kidsEntries kvs)
    | .nil, _ => by simp [kidsEntries, DistinctKids]
    | .cons k e rest, h => by
      simp only [wfEntries, Bool.and_eq_true] at h
      simp only [kidsEntries, DistinctKids, DistinctTree, Tree.step]
      refine ⟨?_, distinctElem e h.1.2, distinctEntries rest h.2⟩
      intro hmem
      obtain ⟨k', e', heq, hl⟩ := steps_kidsEntries rest _ hmem
      cases heq
      have hlt := Entries.lookup_gt rest h.1.1 hl
      rw [Key.lt_irrefl] at hlt
      exact absurd hlt (by simp)
end

/-- The paths pushed by any prefix walk form a sublist of the paths of the forest. -/
theorem Trace.pushPaths_sublist {f : Forest} {w : List Event} (h : Trace f w) :
    ∀ (stk : List Step) (rest : List Event),
      ∃ l, l.Sublist (pathsKids stk f) ∧ pushPaths stk (w ++ rest) = l ++ pushPaths stk rest := by
  induction h with
  | stop f => intro stk rest; exact ⟨[], List.nil_sublist _, by simp⟩
  | @visit s v kids ts w rest' _ _ ih1 ih2 =>
    intro stk rest
    obtain ⟨l1, hs1, he1⟩ := ih1 (stk ++ [s]) (Event.pop s v :: (rest' ++ rest))
    obtain ⟨l2, hs2, he2⟩ := ih2 stk rest
    refine ⟨(stk ++ [s]) :: l1 ++ l2, ?_, ?_⟩
    · simp only [pathsKids, pathsTree, List.cons_append]
      exact List.Sublist.cons_cons _ (List.Sublist.append hs1 hs2)
    · simp only [List.cons_append, List.append_assoc, pushPaths]
      rw [he1]
      simp only [pushPaths, List.dropLast_concat]
      rw [he2]

end Model.Range
