import PbVerif.Model.WktTime
/-
Helper lemmas for C43: the generated `BitVec` arithmetic of `durationpb`/`timestamppb`
(`Gen.WktTime.*`) expressed over `Int` (`BitVec.toInt`).  Core Lean only; every proof is
`omega` after rewriting `toInt` of `* + - sdiv signExtend setWidth` into `Int.bmod`/`Int.tdiv`
and those into `%` and `/` by literals.  No `bv_decide`.
-/
namespace WktTime
open Gen.WktTime Model.WktTime

/-- Go's truncating division by 10^9 in terms of floor division -/
theorem tdiv_lit (a : Int) :
    a.tdiv 1000000000 = if 0 ≤ a then a / 1000000000 else -((-a) / 1000000000) := by
  split
  · rw [Int.tdiv_eq_ediv_of_nonneg (by assumption)]
  · rw [show a = -(-a) by omega, Int.neg_tdiv, Int.tdiv_eq_ediv_of_nonneg (by omega)]; simp

/-- 64-bit two's complement wrap-around without a case split (so that `omega` can use it) -/
theorem bmod64 (x : Int) :
    x.bmod (2^64) = (x + 9223372036854775808) % 18446744073709551616 - 9223372036854775808 := by
  simp only [Int.bmod_def]; split <;> omega

theorem bmod32 (x : Int) : x.bmod (2^32) = (x + 2147483648) % 4294967296 - 2147483648 := by
  simp only [Int.bmod_def]; split <;> omega

/-- `int32(x)` for an int64 `x` -/
theorem toInt_setWidth32 (x : BitVec 64) :
    (x.setWidth 32).toInt = (x.toInt + 2147483648) % 4294967296 - 2147483648 := by
  have h := BitVec.toInt_eq_toNat_cond x
  have hlt := x.isLt
  rw [BitVec.toInt_setWidth, bmod32]
  split at h <;> omega

/-- `int64(x)` for an int32 `x` -/
theorem toInt_signExtend64 (x : BitVec 32) : (x.signExtend 64).toInt = x.toInt :=
  BitVec.toInt_signExtend_of_le (by omega)

/-! ### `AsDuration`, as an `Int` function -/

/-- What the generated `AsDuration` computes: the exact clamp if `seconds·10^9` fits int64, and
otherwise MinInt64/MaxInt64 *by the sign of seconds alone*. -/
theorem asDuration_toInt (s : BitVec 64) (n : BitVec 32) :
    (durationAsDuration s n).toInt =
      if inInt64 (s.toInt * 1000000000) then clamp64 (exactNanos s n)
      else if s.toInt < 0 then minInt64 else maxInt64 := by
  have hS := BitVec.le_toInt s
  have hS' := BitVec.toInt_lt (x := s)
  have hN := BitVec.le_toInt n
  have hN' := BitVec.toInt_lt (x := n)
  unfold durationAsDuration
  dsimp only
  generalize hd1 : s * 1000000000#64 = d1
  have e1 : d1.toInt = (s.toInt * 1000000000).bmod (2^64) := by
    rw [← hd1, BitVec.toInt_mul]; rfl
  generalize hq : BitVec.sdiv d1 1000000000#64 = q
  have e2 : q.toInt = (d1.toInt.tdiv 1000000000).bmod (2^64) := by
    rw [← hq, BitVec.toInt_sdiv]; rfl
  generalize hd2 : d1 + BitVec.signExtend 64 n * 1#64 = d2
  have e3 : d2.toInt = (d1.toInt + n.toInt).bmod (2^64) := by
    rw [← hd2, BitVec.mul_one, BitVec.toInt_add, toInt_signExtend64]
  have hd1 := BitVec.le_toInt d1
  have hd1' := BitVec.toInt_lt (x := d1)
  rw [bmod64] at e1 e2 e3
  rw [tdiv_lit] at e2
  -- the test `d/time.Second != secs` is exact: it fires iff the product left the int64 range
  have e2' : q.toInt = s.toInt ↔ inInt64 (s.toInt * 1000000000) := by
    simp only [inInt64, minInt64, maxInt64]
    by_cases hr : -9223372036854775808 ≤ s.toInt * 1000000000 ∧ s.toInt * 1000000000 ≤ 9223372036854775807
    · have : d1.toInt = s.toInt * 1000000000 := by omega
      simp only [hr, and_self, iff_true]
      split at e2 <;> omega
    · simp only [hr, iff_false]
      split at e2 <;> omega
  simp only [inInt64, clamp64, exactNanos, minInt64, maxInt64] at e2' ⊢
  simp only [bne_iff_ne, beq_iff_eq, ne_eq, Bool.or_eq_true, Bool.and_eq_true, Bool.not_eq_true', Bool.not_eq_eq_eq_not,
    Bool.not_true, BitVec.slt_iff_toInt_lt, BitVec.sle_iff_toInt_le, ← BitVec.toInt_inj, BitVec.reduceToInt, e2']
  simp only [Int.max_def, Int.min_def]
  repeat' split
  all_goals first | omega | (simp only [BitVec.reduceToInt] <;> omega)

/-! ### `durationpb.New`, as an `Int` function -/

/-- `New(d)`: seconds = d / 10^9 truncated toward zero, nanos = the remainder (no wrap-around occurs) -/
theorem new_toInt (d : BitVec 64) :
    (durationNew d).1.toInt = d.toInt.tdiv 1000000000 ∧
    (durationNew d).2.toInt = d.toInt - d.toInt.tdiv 1000000000 * 1000000000 := by
  have hD := BitVec.le_toInt d
  have hD' := BitVec.toInt_lt (x := d)
  unfold durationNew GoTime.durationNanoseconds
  dsimp only
  generalize hq : BitVec.sdiv d 1000000000#64 = q
  have e1 : q.toInt = (d.toInt.tdiv 1000000000).bmod (2^64) := by
    rw [← hq, BitVec.toInt_sdiv]; rfl
  generalize hr : d - q * 1000000000#64 = r
  have e2 : r.toInt = (d.toInt - (q.toInt * 1000000000).bmod (2^64)).bmod (2^64) := by
    rw [← hr, BitVec.toInt_sub, BitVec.toInt_mul]; rfl
  rw [toInt_setWidth32]
  rw [bmod64] at e1
  rw [bmod64, bmod64] at e2
  rw [tdiv_lit] at e1 ⊢
  split at e1 <;> rename_i h0 <;> simp only [h0, if_true, if_false] <;> omega

/-! ### `time.Unix` normalisation (the hand-written stdlib contract `GoTime.unix`) -/

/-- the nanosecond field of `time.Unix(sec, nsec)` is always in `[0, 10^9)`, and — unless the
seconds overflow int64 — `sec'·10^9 + nsec' = sec·10^9 + nsec` with `sec' = sec + ⌊nsec / 10^9⌋`. -/
theorem unix_toInt (sec nsec : BitVec 64) :
    (GoTime.unix sec nsec).WF ∧
    (GoTime.unix sec nsec).nsec.toInt = nsec.toInt % 1000000000 ∧
    (inInt64 (sec.toInt + nsec.toInt / 1000000000) →
      (GoTime.unix sec nsec).unix.toInt = sec.toInt + nsec.toInt / 1000000000) := by
  have hN := BitVec.le_toInt nsec
  have hN' := BitVec.toInt_lt (x := nsec)
  unfold GoTime.unix GoTime.Time.WF
  dsimp only
  -- n := nsec / 1e9 and nsec - n*1e9: no wrap-around
  generalize hq : BitVec.sdiv nsec 1000000000#64 = q
  have q1 : q.toInt = if 0 ≤ nsec.toInt then nsec.toInt / 1000000000 else -((-nsec.toInt) / 1000000000) := by
    have e1 : q.toInt = (nsec.toInt.tdiv 1000000000).bmod (2^64) := by
      rw [← hq, BitVec.toInt_sdiv]; rfl
    rw [bmod64, tdiv_lit] at e1
    split at e1 <;> rename_i h0 <;> simp only [h0, if_true, if_false] <;> omega
  generalize hr : nsec - q * 1000000000#64 = r
  have r1 : r.toInt = nsec.toInt - q.toInt * 1000000000 := by
    have e2 : r.toInt = (nsec.toInt - (q.toInt * 1000000000).bmod (2^64)).bmod (2^64) := by
      rw [← hr, BitVec.toInt_sub, BitVec.toInt_mul]; rfl
    rw [bmod64, bmod64] at e2
    split at q1 <;> omega
  have r2 : (r + 1000000000#64).toInt = r.toInt + 1000000000 := by
    have e5 : (r + 1000000000#64).toInt = (r.toInt + 1000000000).bmod (2^64) := by
      rw [BitVec.toInt_add]; rfl
    rw [bmod64] at e5
    split at q1 <;> omega
  have hS := BitVec.le_toInt sec
  have hS' := BitVec.toInt_lt (x := sec)
  generalize hs : sec + q = s1
  have s1i : inInt64 (sec.toInt + q.toInt) → s1.toInt = sec.toInt + q.toInt := by
    have e3 : s1.toInt = (sec.toInt + q.toInt).bmod (2^64) := by rw [← hs]; exact BitVec.toInt_add _ _
    rw [bmod64] at e3
    simp only [inInt64, minInt64, maxInt64]
    omega
  have s2i : inInt64 (sec.toInt + q.toInt - 1) → (s1 - 1#64).toInt = sec.toInt + q.toInt - 1 := by
    have e3 : s1.toInt = (sec.toInt + q.toInt).bmod (2^64) := by rw [← hs]; exact BitVec.toInt_add _ _
    have e4 : (s1 - 1#64).toInt = (s1.toInt - 1).bmod (2^64) := by
      rw [BitVec.toInt_sub]; rfl
    rw [bmod64] at e3 e4
    simp only [inInt64, minInt64, maxInt64]
    omega
  simp only [inInt64, minInt64, maxInt64] at s1i s2i ⊢
  simp only [Bool.or_eq_true, BitVec.slt_iff_toInt_lt, BitVec.sle_iff_toInt_le, BitVec.reduceToInt]
  split at q1
  all_goals
    repeat' split
    all_goals
      dsimp only
      refine ⟨?_, ?_, ?_⟩ <;> omega

end WktTime
