import PbVerif.Model.Conc
/-
Invariants of the re-entrant derivation behind a lock with a lock-free cache (Model.Conc.Nest) for
the safe shapes: a descriptor is stored into the lock-free cache never, or only by the outermost
caller after the whole derivation has finished.
-/
namespace Conc.Nest

/-- both descriptors are complete -/
def Complete (s : State) : Prop := s.dOut = s.kOut ∧ s.dIn = s.kIn

/-- nothing is derived, nothing is cached -/
def Blank (s : State) : Prop :=
  s.made = false ∧ s.dOut = 0 ∧ s.dIn = 0 ∧ s.lfOut = false ∧ s.lfIn = false

structure Inv (cfg : Cfg) (s : State) : Prop where
  free : s.mutex = none → Blank s ∨ s.made = true
  made_complete : s.made = true → Complete s
  lf_made : (s.lfOut = true → s.made = true) ∧ (s.lfIn = true → s.made = true)
  check_st : ∀ i, s.pc i = .check → s.mutex = some i ∧ (Blank s ∨ s.made = true)
  inner_st : ∀ i k, s.pc i = .buildInner k → s.mutex = some i ∧ s.made = false ∧ s.lfOut = false ∧ s.lfIn = false ∧
      s.dIn = k ∧ k ≤ s.kIn ∧ s.dOut = 0
  pub_st : ∀ i, s.pc i = .pubInner → s.mutex = some i ∧ s.made = false ∧ s.lfOut = false ∧ s.lfIn = false ∧
      s.dIn = s.kIn ∧ s.dOut = 0
  outer_st : ∀ i k, s.pc i = .buildOuter k → s.mutex = some i ∧ s.made = false ∧ s.lfOut = false ∧ s.lfIn = false ∧
      s.dIn = s.kIn ∧ s.dOut = k ∧ k ≤ s.kOut
  finish_st : ∀ i, s.pc i = .finish → s.mutex = some i ∧ s.made = false ∧ s.lfOut = false ∧ s.lfIn = false ∧
      s.dIn = s.kIn ∧ s.dOut = s.kOut
  unlock_st : ∀ i, s.pc i = .unlock → s.mutex = some i ∧ s.made = true
  walk_st : ∀ i, s.pc i = .walk → s.made = true
  done_st : ∀ i obs, s.pc i = .done obs → s.made = true ∧ obs = (s.kOut, s.kIn)

theorem inv_init (cfg : Cfg) : Inv cfg init := by
  constructor <;> simp [init, Blank]

macro "nest_close" : tactic =>
  `(tactic| (constructor <;> simp only [upd, Blank, Complete, lfHit] at * <;> grind))

set_option maxHeartbeats 1600000 in
theorem inv_step {cfg : Cfg} (safe : cfg.publish ≠ .nestedEarly) {s t : State} (h : Inv cfg s) (st : Step cfg s t) : Inv cfg t := by
  obtain ⟨h1, h2, h3, h4, h5, h6, h7, h8, h9, h10, h11⟩ := h
  cases st with
  | fast_hit i hpc hl => nest_close
  | fast_miss i hpc hl => nest_close
  | lock i hpc hm => nest_close
  | check_hit i hpc hm => nest_close
  | check_miss i hpc hm =>
    have := h4 i hpc
    nest_close
  | inner_write i k hpc hk =>
    have := h5 i k hpc
    nest_close
  | inner_end i k hpc hk =>
    have := h5 i k hpc
    nest_close
  | inner_pub i hpc =>
    have := h6 i hpc
    simp only [safe, if_false]
    nest_close
  | outer_write i k hpc hk =>
    have := h7 i k hpc
    nest_close
  | outer_end i k hpc hk =>
    have := h7 i k hpc
    nest_close
  | finish i hpc =>
    have := h8 i hpc
    by_cases hn : cfg.publish = .never <;> simp only [hn, if_true, if_false] <;> nest_close
  | unlock i hpc =>
    have := h9 i hpc
    nest_close
  | walk i hpc =>
    have := h2 (h10 i hpc)
    have := h10 i hpc
    nest_close

theorem inv_reachable {cfg : Cfg} (safe : cfg.publish ≠ .nestedEarly) {s : State} (r : Reachable cfg s) : Inv cfg s := by
  induction r with
  | init => exact inv_init cfg
  | step _ st ih => exact inv_step safe ih st

end Conc.Nest
