import PbVerif.Model.WktJson
/-! Helper definitions and lemmas for C23: Struct / Value / ListValue against the JSON tree. -/
set_option linter.unusedSimpArgs false
set_option linter.unusedVariables false
namespace WktJson

/-! ### predicates -/

mutual
/-- every `Value` has a kind and every number is finite -/
def okValue : PValue → Bool
  | .unset => false
  | .num b => !nonFinite b
  | .struct fs => okFields fs
  | .list vs => okList vs
  | _ => true
def okFields : PFields → Bool
  | .nil => true
  | .cons _ v r => okValue v && okFields r
def okList : PList → Bool
  | .nil => true
  | .cons v r => okValue v && okList r
end

/-- `k` is smaller than the first key (or there is none) -/
def firstKeyGt (k : Str) : PFields → Bool
  | .nil => true
  | .cons k' _ _ => strLt k k'

mutual
/-- a proper map, in `marshalMap`'s order: keys strictly ascending, at every level -/
def canonValue : PValue → Bool
  | .struct fs => canonFields fs
  | .list vs => canonList vs
  | _ => true
def canonFields : PFields → Bool
  | .nil => true
  | .cons k v r => firstKeyGt k r && canonValue v && canonFields r
def canonList : PList → Bool
  | .nil => true
  | .cons v r => canonValue v && canonList r
end

def jfirstKeyGt (k : Str) : JMembers → Bool
  | .nil => true
  | .cons k' _ _ => strLt k k'

mutual
/-- a JSON tree whose objects have strictly ascending keys and whose numbers are finite -/
def jcanonValue : JValue → Bool
  | .num b => !nonFinite b
  | .obj ms => jcanonMembers ms
  | .arr es => jcanonElems es
  | _ => true
def jcanonMembers : JMembers → Bool
  | .nil => true
  | .cons k j r => jfirstKeyGt k r && jcanonValue j && jcanonMembers r
def jcanonElems : JElems → Bool
  | .nil => true
  | .cons j r => jcanonValue j && jcanonElems r
end

mutual
/-- the tree-to-tree translation without any check -/
def toP : JValue → PValue
  | .null => .null
  | .bool b => .bool b
  | .num b => .num b
  | .str s => .str s
  | .obj ms => .struct (toPFields ms)
  | .arr es => .list (toPList es)
def toPFields : JMembers → PFields
  | .nil => .nil
  | .cons k j r => .cons k (toP j) (toPFields r)
def toPList : JElems → PList
  | .nil => .nil
  | .cons j r => .cons (toP j) (toPList r)
end

/-! ### marshal succeeds iff every kind is set and every number finite -/

mutual
theorem marshalValue_isSome : (v : PValue) → (marshalValue v).isSome = okValue v
  | .unset => rfl
  | .null => rfl
  | .num b => by
    simp only [marshalValue, okValue]
    cases nonFinite b <;> rfl
  | .str _ => rfl
  | .bool _ => rfl
  | .struct fs => by
    simp only [marshalValue, okValue, Option.isSome_map]
    exact marshalFields_isSome fs
  | .list vs => by
    simp only [marshalValue, okValue, Option.isSome_map]
    exact marshalList_isSome vs
theorem marshalFields_isSome : (fs : PFields) → (marshalFields fs).isSome = okFields fs
  | .nil => rfl
  | .cons k v r => by
    have h1 := marshalValue_isSome v
    have h2 := marshalFields_isSome r
    simp only [marshalFields, okFields]
    cases hv : marshalValue v with
    | none => rw [hv] at h1; simp [← h1]
    | some j =>
      rw [hv] at h1
      cases hr : marshalFields r with
      | none => rw [hr] at h2; simp [← h1, ← h2]
      | some mr => rw [hr] at h2; simp [← h1, ← h2]
theorem marshalList_isSome : (vs : PList) → (marshalList vs).isSome = okList vs
  | .nil => rfl
  | .cons v r => by
    have h1 := marshalValue_isSome v
    have h2 := marshalList_isSome r
    simp only [marshalList, okList]
    cases hv : marshalValue v with
    | none => rw [hv] at h1; simp [← h1]
    | some j =>
      rw [hv] at h1
      cases hr : marshalList r with
      | none => rw [hr] at h2; simp [← h1, ← h2]
      | some mr => rw [hr] at h2; simp [← h1, ← h2]
end

/-! ### Value → JSON → Value -/

theorem insertField_first (k : Str) (v : PValue) (fs : PFields) (h : firstKeyGt k fs = true) :
    insertField k v fs = some (.cons k v fs) := by
  cases fs with
  | nil => rfl
  | cons k' v' r =>
    simp only [firstKeyGt] at h
    simp only [insertField, h, if_true]

mutual
theorem unmarshal_marshalValue : (v : PValue) → (j : JValue) → canonValue v = true → marshalValue v = some j →
    unmarshalValue j = some v
  | .unset, j, _, h => by simp [marshalValue] at h
  | .null, j, _, h => by simp only [marshalValue, Option.some.injEq] at h; subst h; rfl
  | .num b, j, _, h => by
    simp only [marshalValue] at h
    split at h
    · cases h
    · next hf => simp only [Option.some.injEq] at h; subst h; simp [unmarshalValue, hf]
  | .str s, j, _, h => by simp only [marshalValue, Option.some.injEq] at h; subst h; rfl
  | .bool b, j, _, h => by simp only [marshalValue, Option.some.injEq] at h; subst h; rfl
  | .struct fs, j, hc, h => by
    simp only [marshalValue] at h
    cases hm : marshalFields fs with
    | none => simp [hm] at h
    | some ms =>
      simp only [hm, Option.map_some, Option.some.injEq] at h
      subst h
      simp only [canonValue] at hc
      simp only [unmarshalValue, unmarshal_marshalFields fs ms hc hm, Option.map_some]
  | .list vs, j, hc, h => by
    simp only [marshalValue] at h
    cases hm : marshalList vs with
    | none => simp [hm] at h
    | some es =>
      simp only [hm, Option.map_some, Option.some.injEq] at h
      subst h
      simp only [canonValue] at hc
      simp only [unmarshalValue, unmarshal_marshalList vs es hc hm, Option.map_some]
theorem unmarshal_marshalFields : (fs : PFields) → (ms : JMembers) → canonFields fs = true →
    marshalFields fs = some ms → unmarshalMembers ms = some fs
  | .nil, ms, _, h => by simp only [marshalFields, Option.some.injEq] at h; subst h; rfl
  | .cons k v r, ms, hc, h => by
    simp only [canonFields, Bool.and_eq_true] at hc
    simp only [marshalFields] at h
    cases hv : marshalValue v with
    | none => simp [hv] at h
    | some j =>
      cases hr : marshalFields r with
      | none => simp [hv, hr] at h
      | some mr =>
        simp only [hv, hr, Option.bind_some, Option.map_some, Option.some.injEq] at h
        subst h
        simp only [unmarshalMembers, unmarshal_marshalValue v j hc.1.2 hv, unmarshal_marshalFields r mr hc.2 hr,
          Option.bind_some]
        exact insertField_first k v r hc.1.1
theorem unmarshal_marshalList : (vs : PList) → (es : JElems) → canonList vs = true →
    marshalList vs = some es → unmarshalElems es = some vs
  | .nil, es, _, h => by simp only [marshalList, Option.some.injEq] at h; subst h; rfl
  | .cons v r, es, hc, h => by
    simp only [canonList, Bool.and_eq_true] at hc
    simp only [marshalList] at h
    cases hv : marshalValue v with
    | none => simp [hv] at h
    | some j =>
      cases hr : marshalList r with
      | none => simp [hv, hr] at h
      | some er =>
        simp only [hv, hr, Option.bind_some, Option.map_some, Option.some.injEq] at h
        subst h
        simp only [unmarshalElems, unmarshal_marshalValue v j hc.1 hv, unmarshal_marshalList r er hc.2 hr,
          Option.bind_some, Option.map_some]
end

/-! ### JSON → Value → JSON on key-sorted trees with finite numbers -/

theorem firstKeyGt_toPFields (k : Str) (ms : JMembers) : firstKeyGt k (toPFields ms) = jfirstKeyGt k ms := by
  cases ms <;> rfl

mutual
theorem json_value_iso : (j : JValue) → jcanonValue j = true →
    unmarshalValue j = some (toP j) ∧ marshalValue (toP j) = some j ∧ canonValue (toP j) = true
  | .null, _ => ⟨rfl, rfl, rfl⟩
  | .bool _, _ => ⟨rfl, rfl, rfl⟩
  | .num b, h => by
    simp only [jcanonValue, Bool.not_eq_true'] at h
    exact ⟨by simp [unmarshalValue, toP, h], by simp [toP, marshalValue, h], rfl⟩
  | .str _, _ => ⟨rfl, rfl, rfl⟩
  | .obj ms, h => by
    simp only [jcanonValue] at h
    obtain ⟨h1, h2, h3⟩ := json_members_iso ms h
    exact ⟨by simp [unmarshalValue, toP, h1], by simp [toP, marshalValue, h2], by simpa [toP, canonValue] using h3⟩
  | .arr es, h => by
    simp only [jcanonValue] at h
    obtain ⟨h1, h2, h3⟩ := json_elems_iso es h
    exact ⟨by simp [unmarshalValue, toP, h1], by simp [toP, marshalValue, h2], by simpa [toP, canonValue] using h3⟩
theorem json_members_iso : (ms : JMembers) → jcanonMembers ms = true →
    unmarshalMembers ms = some (toPFields ms) ∧ marshalFields (toPFields ms) = some ms ∧
      canonFields (toPFields ms) = true
  | .nil, _ => ⟨rfl, rfl, rfl⟩
  | .cons k j r, h => by
    simp only [jcanonMembers, Bool.and_eq_true] at h
    obtain ⟨a1, a2, a3⟩ := json_value_iso j h.1.2
    obtain ⟨b1, b2, b3⟩ := json_members_iso r h.2
    have hk : firstKeyGt k (toPFields r) = true := by rw [firstKeyGt_toPFields]; exact h.1.1
    refine ⟨?_, ?_, ?_⟩
    · simp only [unmarshalMembers, a1, b1, Option.bind_some, toPFields]
      exact insertField_first k _ _ hk
    · simp [toPFields, marshalFields, a2, b2]
    · simp [toPFields, canonFields, hk, a3, b3]
theorem json_elems_iso : (es : JElems) → jcanonElems es = true →
    unmarshalElems es = some (toPList es) ∧ marshalList (toPList es) = some es ∧ canonList (toPList es) = true
  | .nil, _ => ⟨rfl, rfl, rfl⟩
  | .cons j r, h => by
    simp only [jcanonElems, Bool.and_eq_true] at h
    obtain ⟨a1, a2, a3⟩ := json_value_iso j h.1
    obtain ⟨b1, b2, b3⟩ := json_elems_iso r h.2
    exact ⟨by simp [unmarshalElems, a1, b1, toPList], by simp [toPList, marshalList, a2, b2],
      by simp [toPList, canonList, a3, b3]⟩
end

/-! ### whatever is parsed is a proper map (keys strictly ascending = pairwise distinct) -/

theorem char_eq_of_toNat {a b : Char} (h : a.toNat = b.toNat) : a = b := by
  have : Char.ofNat a.toNat = Char.ofNat b.toNat := by rw [h]
  rwa [Char.ofNat_toNat, Char.ofNat_toNat] at this

/-- trichotomy of the key order -/
theorem strLt_total : (a b : Str) → strLt a b = false → a ≠ b → strLt b a = true
  | [], [], _, hne => absurd rfl hne
  | [], _ :: _, h, _ => by simp [strLt] at h
  | _ :: _, [], _, _ => rfl
  | x :: s, y :: t, h, hne => by
    simp only [strLt, Bool.or_eq_false_iff, Bool.and_eq_false_iff, decide_eq_false_iff_not] at h
    simp only [strLt, Bool.or_eq_true, Bool.and_eq_true, decide_eq_true_eq]
    by_cases hxy : x.toNat = y.toNat
    · right
      have hc := char_eq_of_toNat hxy
      subst hc
      refine ⟨rfl, strLt_total s t ?_ ?_⟩
      · rcases h.2 with h2 | h2
        · exact absurd rfl h2
        · exact h2
      · intro e; exact hne (by rw [e])
    · left; omega

theorem insertField_canon (k : Str) (v : PValue) (hv : canonValue v = true) :
    (fs fs' : PFields) → canonFields fs = true → insertField k v fs = some fs' →
      canonFields fs' = true ∧ ∀ k0, firstKeyGt k0 fs = true → strLt k0 k = true → firstKeyGt k0 fs' = true
  | .nil, fs', _, h => by
    simp only [insertField, Option.some.injEq] at h
    subst h
    exact ⟨by simp [canonFields, firstKeyGt, hv], by intro k0 _ hk; simpa [firstKeyGt] using hk⟩
  | .cons k' v' r, fs', hc, h => by
    simp only [insertField] at h
    split at h
    · next hlt =>
      simp only [Option.some.injEq] at h
      subst h
      refine ⟨?_, by intro k0 _ hk; simpa [firstKeyGt] using hk⟩
      have e : canonFields (.cons k v (.cons k' v' r)) =
          (firstKeyGt k (.cons k' v' r) && canonValue v && canonFields (.cons k' v' r)) := rfl
      rw [e]
      simp only [Bool.and_eq_true]
      exact ⟨⟨hlt, hv⟩, hc⟩
    · next hlt =>
      split at h
      · cases h
      · next hne =>
        cases hi : insertField k v r with
        | none => simp [hi] at h
        | some r' =>
          simp only [hi, Option.map_some, Option.some.injEq] at h
          subst h
          simp only [canonFields, Bool.and_eq_true] at hc
          obtain ⟨ih1, ih2⟩ := insertField_canon k v hv r r' hc.2 hi
          have hk'k : strLt k' k = true := strLt_total k k' (by simpa using hlt) hne
          refine ⟨?_, ?_⟩
          · simp only [canonFields, Bool.and_eq_true]
            exact ⟨⟨ih2 k' hc.1.1 hk'k, hc.1.2⟩, ih1⟩
          · intro k0 h0 _
            simpa [firstKeyGt] using h0

mutual
theorem unmarshalValue_canon : (j : JValue) → (v : PValue) → unmarshalValue j = some v → canonValue v = true
  | .null, v, h => by simp only [unmarshalValue, Option.some.injEq] at h; subst h; rfl
  | .bool _, v, h => by simp only [unmarshalValue, Option.some.injEq] at h; subst h; rfl
  | .num _, v, h => by
    simp only [unmarshalValue] at h
    split at h
    · cases h
    · simp only [Option.some.injEq] at h; subst h; rfl
  | .str _, v, h => by simp only [unmarshalValue, Option.some.injEq] at h; subst h; rfl
  | .obj ms, v, h => by
    simp only [unmarshalValue] at h
    cases hm : unmarshalMembers ms with
    | none => simp [hm] at h
    | some fs =>
      simp only [hm, Option.map_some, Option.some.injEq] at h
      subst h
      simpa [canonValue] using unmarshalMembers_canon ms fs hm
  | .arr es, v, h => by
    simp only [unmarshalValue] at h
    cases hm : unmarshalElems es with
    | none => simp [hm] at h
    | some vs =>
      simp only [hm, Option.map_some, Option.some.injEq] at h
      subst h
      simpa [canonValue] using unmarshalElems_canon es vs hm
theorem unmarshalMembers_canon : (ms : JMembers) → (fs : PFields) → unmarshalMembers ms = some fs →
    canonFields fs = true
  | .nil, fs, h => by simp only [unmarshalMembers, Option.some.injEq] at h; subst h; rfl
  | .cons k j r, fs, h => by
    simp only [unmarshalMembers] at h
    cases hv : unmarshalValue j with
    | none => simp [hv] at h
    | some v =>
      cases hr : unmarshalMembers r with
      | none => simp [hv, hr] at h
      | some fr =>
        simp only [hv, hr, Option.bind_some] at h
        exact (insertField_canon k v (unmarshalValue_canon j v hv) fr fs (unmarshalMembers_canon r fr hr) h).1
theorem unmarshalElems_canon : (es : JElems) → (vs : PList) → unmarshalElems es = some vs → canonList vs = true
  | .nil, vs, h => by simp only [unmarshalElems, Option.some.injEq] at h; subst h; rfl
  | .cons j r, vs, h => by
    simp only [unmarshalElems] at h
    cases hv : unmarshalValue j with
    | none => simp [hv] at h
    | some v =>
      cases hr : unmarshalElems r with
      | none => simp [hv, hr] at h
      | some vr =>
        simp only [hv, hr, Option.bind_some, Option.map_some, Option.some.injEq] at h
        subst h
        simp [canonList, unmarshalValue_canon j v hv, unmarshalElems_canon r vr hr]
end

end WktJson
