import PbVerif.Lemmas.JsonTextRoundJ3
/-
JSON round trip, part 4: the mutual induction over the message tree.
-/
namespace JT
open Pb

variable (C : JCodec) (D : DOpts) (X : SchemaX) (o : JOpts)

theorem lookupN_cons {α : Type} (n : Nat) (v : α) (r : List (Nat × α)) (k : Nat) :
    lookupN ((n, v) :: r) k = if n = k then some v else lookupN r k := by
  unfold lookupN
  simp only [List.find?_cons]
  by_cases h : n = k
  · simp [h]
  · have : (n == k) = false := by simpa using h
    simp [this, h]

mutual
theorem rtJ_msg (hS : SchemaJ X o) (L : JLaws C) : ∀ (m : Msg) (mi : Nat) (limit : Int),
    RepMsg wfScalarJ X mi limit m →
      ∃ jv, jMsg C o X mi m = .ok jv ∧ jv.isNull = false ∧ dMsg C D X mi limit jv = .ok (normMsg X mi m)
  | .mk fs unk, mi, limit, ⟨hlim, hwkt, _, hex, hf⟩ => by
    obtain ⟨r, hr, hspec⟩ := rtJ_fields hS L fs mi 0 (limit - 1) hf
    refine ⟨.obj (JMembers.ofList (assemble C o (X.msg mi) r)), ?_, rfl, ?_⟩
    · simp [jMsg, hwkt, hr]
    · rw [dMsg]
      have h1 : ¬ (limit - 1 < 0) := by omega
      simp only [h1, if_false, hwkt, Bool.false_eq_true]
      rw [dMembers_assemble C D X o hS L mi (limit - 1) fs r (RepFields.sorted hf) hspec hex]
      simp [normMsg]
theorem rtJ_fields (hS : SchemaJ X o) (L : JLaws C) : ∀ (fs : Fields) (mi : Nat) (lb : Nat) (limit : Int),
    RepFields wfScalarJ X (X.msg mi) lb limit fs →
      ∃ r, jFields C o X (X.msg mi) fs = .ok r ∧ ∀ k, LSpec C D X (X.msg mi) limit r fs k
  | .nil, mi, lb, limit, _ => ⟨[], rfl, fun k => by simp [LSpec, lookupN, Fields.get?]⟩
  | .cons num fv tl, mi, lb, limit, ⟨_, h2, h3⟩ => by
    cases hf : (X.msg mi).find num with
    | none => rw [hf] at h2; exact h2.elim
    | some fx =>
      rw [hf] at h2
      obtain ⟨hmem, hnum⟩ := find_mem hf
      obtain ⟨jv, hj, hs⟩ := rtJ_fval hS L fv fx limit ⟨mi, hmem⟩ h2
      obtain ⟨r, hr, hspec⟩ := rtJ_fields hS L tl mi (num + 1) limit h3
      refine ⟨(num, jv) :: r, by simp [jFields, hf, hj, hr], ?_⟩
      intro k
      unfold LSpec
      rw [lookupN_cons]
      simp only [Fields.get?]
      by_cases hk : num = k
      · subst hk
        simp only [if_true]
        exact ⟨fx, hf, hs⟩
      · simp only [hk, if_false]
        exact hspec k
theorem rtJ_fval (hS : SchemaJ X o) (L : JLaws C) : ∀ (fv : FVal) (fx : FieldX) (limit : Int),
    (∃ i, fx ∈ (X.msg i).fields) → RepFVal wfScalarJ X fx limit fv →
      ∃ jv, jFVal C o X fx fv = .ok jv ∧ FSpec C D X fx limit fv jv
  | .one v, fx, limit, hm, ⟨hc1, hc2, hv, hz⟩ => by
    obtain ⟨jv, hj, hs⟩ := rtJ_val hS L v fx limit hm hv
    exact ⟨jv, by simp [jFVal, hj], FSpec_one C D X fx limit v jv hc1 hc2 hz hs⟩
  | .many vs, fx, limit, hm, ⟨hc, hn, hv⟩ => by
    obtain ⟨l, hl, hs⟩ := rtJ_vals hS L vs fx limit hm hv
    have hnm : fx.f.card ≠ .map := by rw [hc]; decide
    exact ⟨.arr (JElems.ofList l), by simp [jFVal, hnm, hl], FSpec_many C D X fx limit vs l hc hn hs⟩
theorem rtJ_val (hS : SchemaJ X o) (L : JLaws C) : ∀ (v : Val) (fx : FieldX) (limit : Int),
    (∃ i, fx ∈ (X.msg i).fields) → RepVal wfScalarJ X fx limit v →
      ∃ jv, jVal C o X fx v = .ok jv ∧ VSpec C D X fx limit v jv
  | .msg m, fx, limit, _, ⟨hk, hm⟩ => by
    obtain ⟨jv, hj, hn, hd⟩ := rtJ_msg hS L m fx.f.sub limit hm
    exact ⟨jv, by simp [jVal, hk, hj], hn, hk, hd⟩
  | .num n, fx, limit, ⟨i, hmem⟩, hw => by
    obtain ⟨hne, _⟩ := hS.plain i fx hmem
    obtain ⟨j, hj, hjn, hd⟩ := dScalar_jScalar C L o D fx (.num n) hw hne (hS.enums i fx hmem).1
    exact ⟨j, by simp [jVal, hj], hjn, wfScalarJ_notMessage hw, hd⟩
  | .bytes b, fx, limit, ⟨i, hmem⟩, hw => by
    obtain ⟨hne, _⟩ := hS.plain i fx hmem
    obtain ⟨j, hj, hjn, hd⟩ := dScalar_jScalar C L o D fx (.bytes b) hw hne (hS.enums i fx hmem).1
    exact ⟨j, by simp [jVal, hj], hjn, wfScalarJ_notMessage hw, hd⟩
theorem rtJ_vals (hS : SchemaJ X o) (L : JLaws C) : ∀ (vs : Vals) (fx : FieldX) (limit : Int),
    (∃ i, fx ∈ (X.msg i).fields) → RepVals wfScalarJ X fx limit vs →
      ∃ l, jVals C o X fx vs = .ok l ∧ ESpec C D X fx limit vs l
  | .nil, _, _, _, _ => ⟨[], rfl, trivial⟩
  | .cons v tl, fx, limit, hm, ⟨hv, ht⟩ => by
    obtain ⟨jv, hj, hs⟩ := rtJ_val hS L v fx limit hm hv
    obtain ⟨l, hl, hsl⟩ := rtJ_vals hS L tl fx limit hm ht
    exact ⟨jv :: l, by simp [jVals, hj, hl], hs, hsl⟩
end

end JT
