import PbVerif.Lemmas.MsgAlg
/-
A small schema and message used by the `example`s of Props/C05, C07, C10, C30 to show that the
hypotheses of the theorems are satisfiable by non-trivial values.
-/
namespace Pb.Ex
open Pb

/-- message 0: scalars, a NaN-capable float, a recursive submessage, a packed list, a map
(entry type 1), a oneof {6, 7}, a required field; message 1: map entry string → int32 -/
def S0 : Schema := ⟨[
  ⟨[{ num := 1, kind := .int32, card := .optional },
    { num := 2, kind := .float, card := .implicit },
    { num := 3, kind := .message, card := .optional, sub := 0 },
    { num := 4, kind := .int32, card := .repeated, packed := true },
    { num := 5, kind := .message, card := .map, sub := 1 },
    { num := 6, kind := .string, card := .optional, oneof := some 0 },
    { num := 7, kind := .message, card := .optional, oneof := some 0, sub := 0 },
    { num := 8, kind := .int64, card := .required }]⟩,
  ⟨[{ num := 1, kind := .string, card := .optional },
    { num := 2, kind := .int32, card := .optional }]⟩]⟩

def entry (k : List Spec.Byte) (v : Nat) : Val :=
  .msg (.mk (.cons 1 (.one (.bytes k)) (.cons 2 (.one (.num v)) .nil)) [])

def sub0 : Msg := .mk (.cons 1 (.one (.num 7)) (.cons 8 (.one (.num 1)) .nil)) []

/-- fields stored out of number order, NaN in field 2, two map entries, unknown field 99 -/
def m0 : Msg :=
  .mk (.cons 8 (.one (.num 3))
      (.cons 1 (.one (.num 5))
      (.cons 2 (.one (.num 0x7FC00000))
      (.cons 3 (.one (.msg sub0))
      (.cons 4 (.many (.cons (.num 1) (.cons (.num 2) .nil)))
      (.cons 5 (.many (.cons (entry [0x62#8] 9) (.cons (entry [0x61#8] 4) .nil)))
      (.cons 6 (.one (.bytes [0x63#8])) .nil)))))))
    [0x98#8, 0x06#8, 0x01#8]

example : pwfMsg S0 0 m0 = true := by decide
example : wfMsg S0 0 m0 = true := by decide

end Pb.Ex
