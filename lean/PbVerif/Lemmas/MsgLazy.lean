import PbVerif.Model.Lazy
import PbVerif.Lemmas.MsgLazyVerdict
import PbVerif.Lemmas.MsgInv
import PbVerif.Lemmas.MsgAlgFuel
/-
Lazy decoding = eager decoding: the simulation between `decLazyLoop` and `decMsg`.
-/
namespace Pb
open Spec

/-- `decMsg` is the iteration of `decOne` -/
theorem decMsg_step_eq (fuel : Nat) (S : Schema) (mi : Nat) (m : Msg) (b : List Byte) (num wt tl : Nat) (depth : Int)
    (dis : Bool) (hb : b ≠ []) (ht : decTag b = .ok (num, wt, tl)) (hmax : ¬ num > maxValidNumber) :
    decMsg (fuel + 1) S mi m b depth dis =
      match decOne fuel S mi m b num wt tl depth dis with
      | .error e => .error e
      | .ok (m', rest) => decMsg fuel S mi m' rest depth dis := by
  conv => lhs; unfold decMsg
  unfold decOne
  cases b with
  | nil => exact absurd rfl hb
  | cons x r =>
    simp only [ht, hmax, if_false]
    cases hfind : (S.msg mi).find num with
    | none =>
      simp only
      cases hc : consumeFieldValue num wt (List.drop tl (x :: r)) <;> simp only
    | some f =>
      simp only
      cases hstep : decField fuel S mi m f wt (List.drop tl (x :: r)) depth dis with
      | err e => simp only
      | ok m' => simp only; cases hc : consumeFieldValue num wt (List.drop tl (x :: r)) <;> simp only
      | unknown => simp only; cases hc : consumeFieldValue num wt (List.drop tl (x :: r)) <;> simp only

/-- sorted field lists are determined by their `get?` -/
theorem Fields.ext_sorted : ∀ {a b : Fields} {lb : Nat}, a.sortedFrom lb → b.sortedFrom lb →
    (∀ k, a.get? k = b.get? k) → a = b
  | .nil, .nil, _, _, _, _ => rfl
  | .nil, .cons n x tl, _, _, _, h => by have := h n; simp [Fields.get?] at this
  | .cons n x tl, .nil, _, _, _, h => by have := h n; simp [Fields.get?] at this
  | .cons n x tl, .cons n' x' tl', lb, ⟨h1, h2⟩, ⟨h1', h2'⟩, h => by
    have hn : n = n' := by
      rcases Nat.lt_trichotomy n n' with hlt | heq | hgt
      · have := h n
        rw [Fields.get?_cons, Fields.get?_cons] at this
        have ne : ¬ n' = n := by omega
        simp only [if_true, ne, if_false] at this
        rw [Fields.get?_of_sortedFrom (by omega) h2'] at this; cases this
      · exact heq
      · have := h n'
        rw [Fields.get?_cons, Fields.get?_cons] at this
        have ne : ¬ n = n' := by omega
        simp only [if_true, ne, if_false] at this
        rw [Fields.get?_of_sortedFrom (by omega) h2] at this; cases this
    subst hn
    have hx : x = x' := by
      have := h n; simp only [Fields.get?_cons, if_true, Option.some.injEq] at this; exact this
    subst hx
    congr 1
    apply Fields.ext_sorted h2 h2'
    intro k
    have := h k
    rw [Fields.get?_cons, Fields.get?_cons] at this
    by_cases hk : n = k
    · subst hk
      rw [Fields.get?_of_sortedFrom (by omega) h2, Fields.get?_of_sortedFrom (by omega) h2']
    · simpa only [hk, if_false] using this

theorem get?_clearOneofFor_self (d : MsgD) (f : Field) (fs : Fields) :
    (match f.oneof with
      | some o => Fields.clearOneof d o f.num fs
      | none => fs).get? f.num = fs.get? f.num := by
  cases f.oneof with
  | none => rfl
  | some o =>
    simp only [Fields.get?_clearOneof]
    have : d.otherMember o f.num f.num = false := by
      unfold MsgD.otherMember; split <;> simp
    simp [this]

theorem listAt_congr {fs1 fs2 : Fields} {k : Nat} (h : fs1.get? k = fs2.get? k) : fs1.listAt k = fs2.listAt k := by
  unfold Fields.listAt; rw [h]

/-- `decField` looks at the destination only through the field it decodes: two destinations that
agree on that field get the same verdict and the same new value of the field -/
theorem decField_congr {S : Schema} {mi : Nat} {m1 m2 : Msg} {f : Field} {wt : Nat} {val : List Byte} {d : Int}
    {dis : Bool} (fuel : Nat) (hget : m1.fields.get? f.num = m2.fields.get? f.num) :
    (∀ e, decField fuel S mi m1 f wt val d dis = .err e → decField fuel S mi m2 f wt val d dis = .err e) ∧
    (decField fuel S mi m1 f wt val d dis = .unknown → decField fuel S mi m2 f wt val d dis = .unknown) ∧
    (∀ m1', decField fuel S mi m1 f wt val d dis = .ok m1' →
      ∃ m2', decField fuel S mi m2 f wt val d dis = .ok m2' ∧
        m2'.fields.get? f.num = m1'.fields.get? f.num ∧ m1'.unknown = m1.unknown ∧ m2'.unknown = m2.unknown) := by
  cases fuel with
  | zero => simp [decField]
  | succ fu =>
  cases m1 with
  | mk fs1 u1 =>
  cases m2 with
  | mk fs2 u2 =>
  simp only [Msg.fields] at hget
  have hself : ∀ o, (S.msg mi).otherMember o f.num f.num = false := by
    intro o; unfold MsgD.otherMember; split <;> simp
  refine ⟨?_, ?_, ?_⟩
  · intro e h
    unfold decField at h ⊢
    cases ho : f.oneof <;> simp only [ho, Msg.fields, Msg.unknown] at h ⊢
    all_goals (try simp only [Fields.get?_clearOneof, hself, Bool.false_eq_true, if_false] at h ⊢)
    all_goals (try simp only [hget] at h)
    all_goals (repeat' (first | split at h | (dsimp only at h; split at h)))
    all_goals first
      | (cases h; done)
      | (simp only [Step.err.injEq] at h; subst h; simp [*]; done)
  · intro h
    unfold decField at h ⊢
    cases ho : f.oneof <;> simp only [ho, Msg.fields, Msg.unknown] at h ⊢
    all_goals (try simp only [Fields.get?_clearOneof, hself, Bool.false_eq_true, if_false] at h ⊢)
    all_goals (try simp only [hget] at h)
    all_goals (repeat' (first | split at h | (dsimp only at h; split at h)))
    all_goals first
      | (cases h; done)
      | (simp [*]; done)
  · intro m1' h
    unfold decField at h ⊢
    cases ho : f.oneof <;> simp only [ho, Msg.fields, Msg.unknown] at h ⊢
    all_goals (try simp only [Fields.get?_clearOneof, hself, Bool.false_eq_true, if_false] at h ⊢)
    all_goals (try simp only [hget] at h)
    all_goals (repeat' (first | split at h | (dsimp only at h; split at h)))
    all_goals first
      | (cases h; done)
      | (simp only [Step.ok.injEq] at h; subst h
         simp [*, Fields.get?_set, get?_setSingular, get?_appendList, Msg.fields, Msg.unknown, Fields.listAt,
           Vals.isNil]; done)

/-- siblings cleared by decoding a record of `f`: other members of its oneof (singular fields only) -/
def clearsSib (d : MsgD) (f : Field) (j : Nat) : Bool :=
  (f.card != .repeated && f.card != .map) && oneofOther d f j

/-- frame: decoding a record of `f` leaves every other field alone, except that a singular member of
a oneof clears its siblings -/
theorem decField_frame {S : Schema} {mi : Nat} {m m' : Msg} {f : Field} {wt : Nat} {val : List Byte} {d : Int}
    {dis : Bool} (fuel : Nat) (h : decField fuel S mi m f wt val d dis = .ok m') (j : Nat) (hj : j ≠ f.num) :
    m'.fields.get? j = if clearsSib (S.msg mi) f j then none else m.fields.get? j := by
  have hj' : ¬ f.num = j := fun e => hj e.symm
  cases fuel with
  | zero => simp [decField] at h
  | succ fu =>
  cases m with
  | mk fs u =>
  unfold decField at h
  cases ho : f.oneof <;> simp only [ho, Msg.fields, Msg.unknown] at h
  all_goals (repeat' (first | split at h | (dsimp only at h; split at h)))
  all_goals first
    | (cases h; done)
    | (simp only [Step.ok.injEq] at h; subst h
       try (have hc1 : (f.card != Card.repeated) = true := by simpa using ‹f.card = Card.repeated → False›)
       try (have hc2 : (f.card != Card.map) = true := by simpa using ‹f.card = Card.map → False›)
       simp [*, clearsSib, oneofOther, Fields.get?_set, get?_setSingular, get?_appendList, Fields.get?_clearOneof,
         Msg.fields]; done)

theorem decField_sorted {S : Schema} {mi : Nat} {m m' : Msg} {f : Field} {wt : Nat} {val : List Byte} {d : Int}
    {dis : Bool} (fuel : Nat) (h : decField fuel S mi m f wt val d dis = .ok m') (hs : m.fields.sortedFrom 0) :
    m'.fields.sortedFrom 0 := by
  cases fuel with
  | zero => simp [decField] at h
  | succ fu =>
  cases m with
  | mk fs u =>
  simp only [Msg.fields] at hs
  unfold decField at h
  cases ho : f.oneof <;> simp only [ho, Msg.fields, Msg.unknown] at h
  all_goals (repeat' (first | split at h | (dsimp only at h; split at h)))
  all_goals first
    | (cases h; done)
    | (simp only [Step.ok.injEq] at h; subst h
       simp only [Msg.fields]
       first
         | exact sortedFrom_appendList _ (Nat.zero_le _) hs
         | exact Fields.sortedFrom_set _ (Nat.zero_le _) hs
         | exact Fields.sortedFrom_set _ (Nat.zero_le _) (Fields.sortedFrom_clearOneof _ _ _ hs)
         | exact sortedFrom_setSingular _ f _ (Nat.zero_le _) hs)

/-- a record of a lazy field with another wire type than length-delimited is not interpreted -/
theorem decField_lazy_wrongwt {S : Schema} {mi : Nat} {m : Msg} {f : Field} {lazy : Nat → Bool} {wt : Nat}
    {val : List Byte} {d : Int} {dis : Bool} (fuel : Nat) (hl : isLazyField lazy f = true) (hw : wt ≠ 2) :
    decField (fuel + 1) S mi m f wt val d dis = .unknown := by
  simp only [isLazyField, Bool.and_eq_true, beq_iff_eq, bne_iff_ne, ne_eq, Option.isNone_iff_eq_none] at hl
  obtain ⟨⟨⟨⟨_, hk⟩, hc1⟩, hc2⟩, _⟩ := hl
  unfold decField
  cases hc : f.card <;> simp only [hc] at hc1 hc2 ⊢ <;> first
    | contradiction
    | simp [hk, Kind.isMessage, decSubBytes, hw]

/-- a length-delimited record of a lazy field, eagerly: decode the payload into the submessage held
so far (`c`) -/
theorem decField_lazy_eval {S : Schema} {mi : Nat} {m : Msg} {f : Field} {lazy : Nat → Bool}
    {val : List Byte} {d : Int} {dis : Bool} {c : Msg} (fuel : Nat) (hl : isLazyField lazy f = true)
    (hcur : (m.fields.get? f.num = none ∧ c = Msg.empty) ∨ m.fields.get? f.num = some (.one (.msg c))) :
    decField (fuel + 1) S mi m f 2 val d dis =
      match decBytes val with
      | .error _ => .err .decode
      | .ok (p, _) =>
        if d - 1 < 0 then .err .depth else
        match decMsg fuel S f.sub c p (d - 1) dis with
        | .error e => .err e
        | .ok sub => .ok (.mk (m.fields.set f.num (.one (.msg sub))) m.unknown) := by
  simp only [isLazyField, Bool.and_eq_true, beq_iff_eq, bne_iff_ne, ne_eq, Option.isNone_iff_eq_none] at hl
  obtain ⟨⟨⟨⟨_, hk⟩, hc1⟩, hc2⟩, ho⟩ := hl
  unfold decField
  cases hc : f.card <;> simp only [hc] at hc1 hc2 ⊢ <;> first
    | contradiction
    | (simp only [hk, Kind.isMessage, decSubBytes, ho, reduceCtorEq, if_false, if_true, ne_eq, not_true_eq_false]
       cases hb : decBytes val with
       | error e => simp
       | ok r =>
         obtain ⟨p, n⟩ := r
         rcases hcur with ⟨h0, rfl⟩ | h1
         · simp only [h0]
           by_cases hd : d - 1 < 0
           · simp [hd]
           · simp only [hd, if_false]
             cases decMsg fuel S f.sub Msg.empty p (d - 1) dis <;> rfl
         · simp only [h1]
           by_cases hd : d - 1 < 0
           · simp [hd]
           · simp only [hd, if_false]
             cases decMsg fuel S f.sub c p (d - 1) dis <;> rfl)

theorem decodeOcc_append (S : Schema) (sub : Nat) (d : Int) (dis : Bool) (p : List Byte) :
    ∀ (a : List (List Byte)) (acc : Msg),
      decodeOcc S sub d dis (a ++ [p]) acc =
        match decodeOcc S sub d dis a acc with
        | .error e => .error e
        | .ok x => decMsg (Pb.fuelFor p) S sub x p d dis
  | [], acc => by
    simp only [List.nil_append, decodeOcc]
    cases decMsg (Pb.fuelFor p) S sub acc p d dis <;> rfl
  | q :: qs, acc => by
    simp only [List.cons_append, decodeOcc]
    cases decMsg (Pb.fuelFor q) S sub acc q d dis with
    | error e => rfl
    | ok x => exact decodeOcc_append S sub d dis p qs x

theorem occurrences_append (pend : List (Nat × List Byte)) (k : Nat) (p : List Byte) (k' : Nat) :
    occurrences (pend ++ [(k, p)]) k' = if k = k' then occurrences pend k' ++ [p] else occurrences pend k' := by
  unfold occurrences
  by_cases h : k = k'
  · subst h; simp [List.filter_append]
  · simp [List.filter_append, h]

section
variable (S : Schema) (mi : Nat) (lazy : Nat → Bool) (depth : Int) (dis : Bool)

/-- field number `k` is a lazy field of the message type -/
def lazyAt (k : Nat) : Bool :=
  match (S.msg mi).find k with
  | some f => isLazyField lazy f
  | none => false

/-- the simulation relation: lazily decoded state `l` vs eagerly decoded message `m` after the same
prefix of the input -/
structure Sim (l : LMsg) (m : Msg) : Prop where
  unk : m.unknown = l.base.unknown
  sm : m.fields.sortedFrom 0
  sb : l.base.fields.sortedFrom 0
  nonlazy : ∀ k, lazyAt S mi lazy k = false → m.fields.get? k = l.base.fields.get? k
  lazyf : ∀ k f, (S.msg mi).find k = some f → isLazyField lazy f = true →
    l.base.fields.get? k = none ∧
    ((occurrences l.pend k = [] ∧ m.fields.get? k = none) ∨
     (occurrences l.pend k ≠ [] ∧ ∃ sub,
        decodeOcc S f.sub (depth - 1) dis (occurrences l.pend k) Msg.empty = .ok sub ∧
        m.fields.get? k = some (.one (.msg sub))))
  pendLazy : ∀ kp ∈ l.pend, lazyAt S mi lazy kp.1 = true

theorem Sim_empty : Sim S mi lazy depth dis LMsg.empty Msg.empty := by
  refine ⟨rfl, trivial, trivial, fun _ _ => rfl, ?_, ?_⟩
  · intro k f _ _
    exact ⟨rfl, Or.inl ⟨rfl, rfl⟩⟩
  · intro kp h; simp [LMsg.empty] at h

end

theorem Sim_unknown {S : Schema} {mi : Nat} {lazy : Nat → Bool} {depth : Int} {dis : Bool} {l : LMsg} {m : Msg}
    (h : Sim S mi lazy depth dis l m) (x : List Byte) (disc : Bool) :
    Sim S mi lazy depth dis ⟨if disc then l.base else Msg.mk l.base.fields (l.base.unknown ++ x), l.pend⟩
      (if disc then m else Msg.mk m.fields (m.unknown ++ x)) := by
  cases disc
  · simp only [Bool.false_eq_true, if_false]
    exact ⟨(by show m.unknown ++ x = l.base.unknown ++ x; rw [h.unk]), h.sm, h.sb, h.nonlazy, h.lazyf, h.pendLazy⟩
  · simpa using h

/-- one non-deferred record: the lazy loop and the eager loop do the same thing to their messages -/
theorem decOne_sim {S : Schema} {mi : Nat} {lazy : Nat → Bool} {depth : Int} {dis : Bool} {l : LMsg} {m : Msg}
    (h : Sim S mi lazy depth dis l m) (fu : Nat) (b : List Byte) (num wt tl : Nat)
    (hgen : ∀ f, (S.msg mi).find num = some f → isLazyField lazy f = true → wt ≠ 2) :
    (∀ e, decOne (fu + 1) S mi l.base b num wt tl depth dis = .error e →
        decOne (fu + 1) S mi m b num wt tl depth dis = .error e) ∧
    (∀ b' rest, decOne (fu + 1) S mi l.base b num wt tl depth dis = .ok (b', rest) →
        ∃ m', decOne (fu + 1) S mi m b num wt tl depth dis = .ok (m', rest) ∧
          Sim S mi lazy depth dis ⟨b', l.pend⟩ m') := by
  unfold decOne
  cases hfind : (S.msg mi).find num with
  | none =>
    simp only
    cases hc : consumeFieldValue num wt (List.drop tl b) with
    | error e0 => simp
    | ok n =>
      simp only
      refine ⟨(by intro e he; cases he), ?_⟩
      intro b' rest hb
      simp only [Except.ok.injEq, Prod.mk.injEq] at hb
      obtain ⟨rfl, rfl⟩ := hb
      exact ⟨_, rfl, Sim_unknown h _ dis⟩
  | some f =>
    simp only
    have hfn := MsgD.find_num_eq hfind
    subst hfn
    by_cases hl : isLazyField lazy f = true
    · have hw := hgen f hfind hl
      rw [decField_lazy_wrongwt fu hl hw, decField_lazy_wrongwt fu hl hw]
      simp only
      cases hc : consumeFieldValue f.num wt (List.drop tl b) with
      | error e0 => simp
      | ok n =>
        simp only
        refine ⟨(by intro e he; cases he), ?_⟩
        intro b' rest hb
        simp only [Except.ok.injEq, Prod.mk.injEq] at hb
        obtain ⟨rfl, rfl⟩ := hb
        exact ⟨_, rfl, Sim_unknown h _ dis⟩
    · have hl' : isLazyField lazy f = false := by simpa using hl
      have hla : lazyAt S mi lazy f.num = false := by simp [lazyAt, hfind, hl']
      have hget := (h.nonlazy f.num hla).symm
      obtain ⟨cErr, cUnk, cOk⟩ := decField_congr (S := S) (mi := mi) (wt := wt) (val := List.drop tl b)
        (d := depth) (dis := dis) (fu + 1) hget
      cases hstep : decField (fu + 1) S mi l.base f wt (List.drop tl b) depth dis with
      | err e0 =>
        rw [cErr e0 hstep]
        simp
      | unknown =>
        rw [cUnk hstep]
        simp only
        cases hc : consumeFieldValue f.num wt (List.drop tl b) with
        | error e0 => simp
        | ok n =>
          simp only
          refine ⟨(by intro e he; cases he), ?_⟩
          intro b' rest hb
          simp only [Except.ok.injEq, Prod.mk.injEq] at hb
          obtain ⟨rfl, rfl⟩ := hb
          exact ⟨_, rfl, Sim_unknown h _ dis⟩
      | ok b1 =>
        obtain ⟨m1, hm1, hg1, hu1, hu2⟩ := cOk b1 hstep
        rw [hm1]
        simp only
        cases hc : consumeFieldValue f.num wt (List.drop tl b) with
        | error e0 => simp
        | ok n =>
          simp only
          refine ⟨(by intro e he; cases he), ?_⟩
          intro b' rest hb
          simp only [Except.ok.injEq, Prod.mk.injEq] at hb
          obtain ⟨rfl, rfl⟩ := hb
          refine ⟨m1, rfl, ?_⟩
          have hfr1 := decField_frame (fu + 1) hstep
          have hfr2 := decField_frame (fu + 1) hm1
          refine ⟨by rw [hu2, hu1, h.unk], decField_sorted _ hm1 h.sm, decField_sorted _ hstep h.sb, ?_, ?_, h.pendLazy⟩
          · intro k hk
            by_cases hkf : k = f.num
            · subst hkf; exact hg1
            · rw [hfr1 k hkf, hfr2 k hkf, h.nonlazy k hk]
          · intro k g hkg hlg
            have hkf : k ≠ f.num := by
              intro e; subst e; rw [hfind] at hkg; cases hkg; rw [hlg] at hl'; cases hl'
            have hgo : g.oneof = none := by
              simp only [isLazyField, Bool.and_eq_true, Option.isNone_iff_eq_none] at hlg; exact hlg.2
            have hcs : clearsSib (S.msg mi) f k = false := by
              simp only [clearsSib, oneofOther, Bool.and_eq_false_iff]
              right
              cases f.oneof with
              | none => rfl
              | some o => simp [MsgD.otherMember, hkg, hgo]
            have := h.lazyf k g hkg hlg
            rw [hfr1 k hkf, hfr2 k hkf, hcs]
            simpa using this

theorem decOne_rest_len {fuel : Nat} {S : Schema} {mi : Nat} {m m' : Msg} {b rest : List Byte} {num wt tl : Nat}
    {depth : Int} {dis : Bool} (h : decOne fuel S mi m b num wt tl depth dis = .ok (m', rest)) :
    rest.length ≤ b.length - tl := by
  unfold decOne at h
  repeat' (first | split at h | (dsimp only at h; split at h))
  all_goals first
    | (cases h; done)
    | (simp only [Except.ok.injEq, Prod.mk.injEq] at h
       rw [← h.2]; simp only [List.length_drop]; omega)

/-- **the lazy record loop simulates the eager one**: same errors, and on success the eager result is
related to the lazy state -/
theorem lazy_sim (S : Schema) (mi : Nat) (lazy : Nat → Bool) (depth : Int) (dis : Bool) :
    ∀ (fuel : Nat) (l : LMsg) (m : Msg) (b : List Byte), Sim S mi lazy depth dis l m → b.length + 2 ≤ fuel →
      (∀ e, decLazyLoop fuel S mi lazy l b depth dis = .error e → decMsg fuel S mi m b depth dis = .error e) ∧
      (∀ l', decLazyLoop fuel S mi lazy l b depth dis = .ok l' →
        ∃ m', decMsg fuel S mi m b depth dis = .ok m' ∧ Sim S mi lazy depth dis l' m')
  | 0, _, _, _, _, hf => by omega
  | fuel + 1, l, m, b, hsim, hf => by
    cases b with
    | nil =>
      simp only [decLazyLoop, decMsg]
      exact ⟨(by intro e he; cases he), (by intro l' hl; cases hl; exact ⟨m, rfl, hsim⟩)⟩
    | cons x r =>
      cases ht : decTag (x :: r) with
      | error e0 =>
        simp only [decLazyLoop, decMsg, ht]
        exact ⟨(by intro e he; cases he; rfl), (by intro l' hl; cases hl)⟩
      | ok t =>
        obtain ⟨num, wt, tl⟩ := t
        have htl := decTag_len ht
        by_cases hmax : num > maxValidNumber
        · simp only [decLazyLoop, decMsg, ht, hmax, if_true]
          exact ⟨(by intro e he; cases he; rfl), (by intro l' hl; cases hl)⟩
        · rw [decMsg_step_eq fuel S mi m (x :: r) num wt tl depth dis (by simp) ht hmax]
          conv => enter [1, e, 1, 1]; unfold decLazyLoop
          conv => enter [2, l', 1, 1]; unfold decLazyLoop
          simp only [ht, hmax, if_false]
          have generic : (∀ f, (S.msg mi).find num = some f → isLazyField lazy f = true → wt ≠ 2) →
              (∀ e, (match decOne fuel S mi l.base (x :: r) num wt tl depth dis with
                  | .error e => (.error e : Except DErr LMsg)
                  | .ok (m', rest) => decLazyLoop fuel S mi lazy ⟨m', l.pend⟩ rest depth dis) = .error e →
                (match decOne fuel S mi m (x :: r) num wt tl depth dis with
                  | .error e => (.error e : Except DErr Msg)
                  | .ok (m', rest) => decMsg fuel S mi m' rest depth dis) = .error e) ∧
              (∀ l', (match decOne fuel S mi l.base (x :: r) num wt tl depth dis with
                  | .error e => (.error e : Except DErr LMsg)
                  | .ok (m', rest) => decLazyLoop fuel S mi lazy ⟨m', l.pend⟩ rest depth dis) = .ok l' →
                ∃ m', (match decOne fuel S mi m (x :: r) num wt tl depth dis with
                  | .error e => (.error e : Except DErr Msg)
                  | .ok (m', rest) => decMsg fuel S mi m' rest depth dis) = .ok m' ∧ Sim S mi lazy depth dis l' m') := by
            intro hgen
            cases fuel with
            | zero => simp only [List.length_cons] at hf; omega
            | succ fu =>
              obtain ⟨sErr, sOk⟩ := decOne_sim hsim fu (x :: r) num wt tl hgen
              cases hone : decOne (fu + 1) S mi l.base (x :: r) num wt tl depth dis with
              | error e0 =>
                rw [sErr e0 hone]
                exact ⟨(by intro e he; cases he; rfl), (by intro l' hl; cases hl)⟩
              | ok pr =>
                obtain ⟨b', rest⟩ := pr
                obtain ⟨m', hm', hs'⟩ := sOk b' rest hone
                rw [hm']
                simp only
                have hrest : rest.length + 2 ≤ fu + 1 := by
                  have := decOne_rest_len hone
                  simp only [List.length_cons] at hf this; omega
                exact lazy_sim S mi lazy depth dis (fu + 1) ⟨b', l.pend⟩ m' rest hs' hrest
          cases hfind : (S.msg mi).find num with
          | none =>
            simp only
            exact generic (by intro f hf'; rw [hfind] at hf'; cases hf')
          | some f =>
            simp only
            by_cases hc : (isLazyField lazy f && wt == 2) = true
            · simp only [hc, if_true]
              simp only [Bool.and_eq_true, beq_iff_eq] at hc
              obtain ⟨hl, hw⟩ := hc
              subst hw
              have hfn := MsgD.find_num_eq hfind
              subst hfn
              cases fuel with
              | zero => simp only [List.length_cons] at hf; omega
              | succ fu =>
              have hlz := hsim.lazyf f.num f hfind hl
              -- the submessage held so far on the eager side
              obtain ⟨c, hcur, hocc⟩ : ∃ c, ((m.fields.get? f.num = none ∧ c = Msg.empty) ∨
                  m.fields.get? f.num = some (.one (.msg c))) ∧
                  decodeOcc S f.sub (depth - 1) dis (occurrences l.pend f.num) Msg.empty = .ok c := by
                rcases hlz.2 with ⟨h0, hm0⟩ | ⟨_, sub, hs, hm1⟩
                · exact ⟨Msg.empty, Or.inl ⟨hm0, rfl⟩, by rw [h0]; rfl⟩
                · exact ⟨sub, Or.inr hm1, hs⟩
              have heager : decOne (fu + 1) S mi m (x :: r) f.num 2 tl depth dis =
                  match decField (fu + 1) S mi m f 2 (List.drop tl (x :: r)) depth dis with
                  | .err e => .error e
                  | .ok m' =>
                    match consumeFieldValue f.num 2 (List.drop tl (x :: r)) with
                    | .error _ => .error .decode
                    | .ok n => .ok (m', (List.drop tl (x :: r)).drop n)
                  | .unknown =>
                    match consumeFieldValue f.num 2 (List.drop tl (x :: r)) with
                    | .error _ => .error .decode
                    | .ok n => .ok (if dis then m else Msg.mk m.fields (m.unknown ++ (x :: r).take (tl + n)),
                        (List.drop tl (x :: r)).drop n) := by
                unfold decOne; simp only [hfind]
                cases decField (fu + 1) S mi m f 2 (List.drop tl (x :: r)) depth dis with
                | err e => rfl
                | ok m' => cases consumeFieldValue f.num 2 (List.drop tl (x :: r)) <;> rfl
                | unknown => cases consumeFieldValue f.num 2 (List.drop tl (x :: r)) <;> rfl
              rw [heager, decField_lazy_eval fu hl hcur, consumeFieldValue_bytes]
              cases hb : decBytes (List.drop tl (x :: r)) with
              | error e0 =>
                simp only
                exact ⟨(by intro e he; cases he; rfl), (by intro l' hl'; cases hl')⟩
              | ok pn =>
                obtain ⟨p, n⟩ := pn
                simp only [Except.map]
                by_cases hd : depth - 1 < 0
                · simp only [hd, if_true]
                  exact ⟨(by intro e he; cases he; rfl), (by intro l' hl'; cases hl')⟩
                · simp only [hd, if_false]
                  have hplen := decBytes_payload_len hb
                  have hnle := decBytes_len hb
                  simp only [List.length_drop, List.length_cons] at hplen hnle hf
                  have hp1 : p.length + 2 ≤ fu := by omega
                  -- validation (into the empty message) and the eager merge-decode have the same verdict
                  have hfe : decMsg (fu + 1) S f.sub Msg.empty p (depth - 1) dis =
                      decMsg fu S f.sub Msg.empty p (depth - 1) dis :=
                    decMsg_fuel_eq S f.sub Msg.empty p (depth - 1) dis (by omega) hp1
                  rw [hfe]
                  cases hv : decMsg fu S f.sub Msg.empty p (depth - 1) dis with
                  | error e0 =>
                    have := (dec_verdict_indep fu).1 S f.sub Msg.empty c p (depth - 1) dis e0 hv
                    rw [this]
                    simp only
                    exact ⟨(by intro e he; cases he; rfl), (by intro l' hl'; cases hl')⟩
                  | ok v0 =>
                    cases hc : decMsg fu S f.sub c p (depth - 1) dis with
                    | error e1 =>
                      have := (dec_verdict_indep fu).1 S f.sub c Msg.empty p (depth - 1) dis e1 hc
                      rw [this] at hv; cases hv
                    | ok sub' =>
                      simp only
                      -- the new states are related
                      have hs' : Sim S mi lazy depth dis ⟨l.base, l.pend ++ [(f.num, p)]⟩
                          (.mk (m.fields.set f.num (.one (.msg sub'))) m.unknown) := by
                        refine ⟨hsim.unk, Fields.sortedFrom_set _ (Nat.zero_le _) hsim.sm, hsim.sb, ?_, ?_, ?_⟩
                        · intro k hk
                          have hkf : ¬ f.num = k := by
                            intro e; subst e; simp [lazyAt, hfind, hl] at hk
                          simp only [Msg.fields, Fields.get?_set, hkf, if_false]
                          exact hsim.nonlazy k hk
                        · intro k g hkg hlg
                          have hold := hsim.lazyf k g hkg hlg
                          refine ⟨hold.1, ?_⟩
                          simp only [occurrences_append, Msg.fields, Fields.get?_set]
                          by_cases hkf : f.num = k
                          · subst hkf
                            rw [hfind] at hkg; cases hkg
                            simp only [if_true]
                            right
                            refine ⟨by simp, sub', ?_, rfl⟩
                            rw [decodeOcc_append, hocc]
                            simp only
                            rw [decMsg_fuel_eq S _ c p (depth - 1) dis (f := Pb.fuelFor p) (f' := fu)
                              (by unfold Pb.fuelFor; omega) hp1]
                            exact hc
                          · simp only [hkf, if_false]
                            exact hold.2
                        · intro kp hkp
                          simp only [List.mem_append, List.mem_singleton] at hkp
                          rcases hkp with hkp | rfl
                          · exact hsim.pendLazy kp hkp
                          · simp [lazyAt, hfind, hl]
                      have hrest : (List.drop n (List.drop tl (x :: r))).length + 2 ≤ fu + 1 := by
                        simp only [List.length_drop, List.length_cons]; omega
                      exact lazy_sim S mi lazy depth dis (fu + 1) _ _ _ hs' hrest
            · simp only [hc, if_false]
              apply generic
              intro g hg hlg hw
              rw [hfind] at hg; cases hg
              apply hc; simp [hlg, hw]

/-- the submessage that forcing field `k` produces -/
def subOf (S : Schema) (mi : Nat) (depth : Int) (dis : Bool) (pend : List (Nat × List Byte)) (k : Nat) : Option Msg :=
  match (S.msg mi).find k with
  | none => none
  | some f =>
    match decodeOcc S f.sub (depth - 1) dis (occurrences pend k) Msg.empty with
    | .ok sub => some sub
    | .error _ => none

theorem mem_pendNums (pend : List (Nat × List Byte)) (k : Nat) : k ∈ pendNums pend ↔ occurrences pend k ≠ [] := by
  unfold pendNums occurrences
  rw [List.mem_eraseDups]
  constructor
  · intro hk
    rw [List.mem_map] at hk
    obtain ⟨kp, hm, rfl⟩ := hk
    intro he
    have : kp ∈ pend.filter (fun x => x.1 == kp.1) := by simp [hm]
    rw [List.map_eq_nil_iff] at he
    rw [he] at this; cases this
  · intro hne
    have : pend.filter (fun x => x.1 == k) ≠ [] := by
      intro e; apply hne; rw [e]; rfl
    obtain ⟨kp, hkp⟩ := List.exists_mem_of_ne_nil _ this
    rw [List.mem_filter] at hkp
    rw [List.mem_map]
    exact ⟨kp, hkp.1, by simpa using hkp.2⟩

theorem forceAll_spec (S : Schema) (mi : Nat) (depth : Int) (dis : Bool) (pend : List (Nat × List Byte)) :
    ∀ (ks : List Nat) (m0 : Msg), (∀ k ∈ ks, (subOf S mi depth dis pend k).isSome = true) →
      ∃ r, forceAll S mi depth dis pend ks m0 = .ok r ∧ r.unknown = m0.unknown ∧
        (m0.fields.sortedFrom 0 → r.fields.sortedFrom 0) ∧
        ∀ j, r.fields.get? j =
          if j ∈ ks then (subOf S mi depth dis pend j).map (fun s => FVal.one (.msg s)) else m0.fields.get? j
  | [], m0, _ => ⟨m0, rfl, rfl, id, by intro j; simp⟩
  | k :: ks, m0, h => by
    have hk := h k (by simp)
    unfold subOf at hk
    cases hfind : (S.msg mi).find k with
    | none => simp [hfind] at hk
    | some f =>
      simp only [hfind] at hk
      cases hdo : decodeOcc S f.sub (depth - 1) dis (occurrences pend k) Msg.empty with
      | error e => simp [hdo] at hk
      | ok sub =>
        obtain ⟨r, hr, hu, hs, hg⟩ := forceAll_spec S mi depth dis pend ks
          (.mk (m0.fields.set k (.one (.msg sub))) m0.unknown) (fun k' hk' => h k' (by simp [hk']))
        refine ⟨r, ?_, hu, ?_, ?_⟩
        · simp only [forceAll, forceField, hfind, hdo]; exact hr
        · intro h0; exact hs (Fields.sortedFrom_set _ (Nat.zero_le _) h0)
        · intro j
          rw [hg j]
          by_cases hj : j ∈ ks
          · simp [hj]
          · simp only [hj, if_false, Msg.fields, Fields.get?_set, List.mem_cons]
            by_cases hkj : k = j
            · subst hkj; simp [subOf, hfind, hdo]
            · have : ¬ j = k := fun e => hkj e.symm
              simp [hkj, this]

/-- **forcing a related lazy state gives the eager message** -/
theorem force_of_sim {S : Schema} {mi : Nat} {lazy : Nat → Bool} {depth : Int} {dis : Bool} {l : LMsg} {m : Msg}
    (h : Sim S mi lazy depth dis l m) : forceAll S mi depth dis l.pend (pendNums l.pend) l.base = .ok m := by
  have hall : ∀ k ∈ pendNums l.pend, (subOf S mi depth dis l.pend k).isSome = true := by
    intro k hk
    have hocc := (mem_pendNums l.pend k).mp hk
    -- k is a lazy field
    have hlz : lazyAt S mi lazy k = true := by
      unfold pendNums at hk
      rw [List.mem_eraseDups, List.mem_map] at hk
      obtain ⟨kp, hm, rfl⟩ := hk
      exact h.pendLazy kp hm
    unfold lazyAt at hlz
    cases hfind : (S.msg mi).find k with
    | none => simp [hfind] at hlz
    | some f =>
      simp only [hfind] at hlz
      rcases (h.lazyf k f hfind hlz).2 with ⟨h0, _⟩ | ⟨_, sub, hs, _⟩
      · exact absurd h0 hocc
      · simp [subOf, hfind, hs]
  obtain ⟨r, hr, hu, hs, hg⟩ := forceAll_spec S mi depth dis l.pend (pendNums l.pend) l.base hall
  rw [hr]
  congr 1
  have hfields : r.fields = m.fields := by
    apply Fields.ext_sorted (hs h.sb) h.sm
    intro j
    rw [hg j]
    cases hlz : lazyAt S mi lazy j with
    | false =>
      have hnm : j ∉ pendNums l.pend := by
        intro hj
        unfold pendNums at hj
        rw [List.mem_eraseDups, List.mem_map] at hj
        obtain ⟨kp, hm, rfl⟩ := hj
        rw [h.pendLazy kp hm] at hlz; cases hlz
      simp only [hnm, if_false]
      exact (h.nonlazy j hlz).symm
    | true =>
      unfold lazyAt at hlz
      cases hfind : (S.msg mi).find j with
      | none => simp [hfind] at hlz
      | some f =>
        simp only [hfind] at hlz
        obtain ⟨hb0, hcase⟩ := h.lazyf j f hfind hlz
        rcases hcase with ⟨h0, hm0⟩ | ⟨hne, sub, hs', hm1⟩
        · have hnm : j ∉ pendNums l.pend := by rw [mem_pendNums]; simp [h0]
          simp only [hnm, if_false]
          rw [hb0, hm0]
        · have hin : j ∈ pendNums l.pend := (mem_pendNums _ _).mpr hne
          simp only [hin, if_true, subOf, hfind, hs', Option.map_some]
          exact hm1.symm
  have hunk : r.unknown = m.unknown := by rw [hu, h.unk]
  cases r; cases m
  simp only [Msg.fields, Msg.unknown] at hfields hunk
  rw [hfields, hunk]

end Pb
