import PbVerif.Model.Lazy
import PbVerif.Lemmas.MsgLazyVerdict
import PbVerif.Lemmas.MsgInv
import PbVerif.Lemmas.MsgAlgFuel
/-
Lazy decoding = eager decoding: the simulation between `decLazyLoop` and `decMsg`.
-/
namespace Pb
open Spec

/-- `decMsg` is the iteration of `decOne` -/
theorem decMsg_step_eq (fuel : Nat) (S : Schema) (mi : Nat) (m : Msg) (b : List Byte) (num wt tl : Nat) (depth : Int)
    (dis : Bool) (hb : b ≠ []) (ht : decTag b = .ok (num, wt, tl)) (hmax : ¬ num > maxValidNumber) :
    decMsg (fuel + 1) S mi m b depth dis =
      match decOne fuel S mi m b num wt tl depth dis with
      | .error e => .error e
      | .ok (m', rest) => decMsg fuel S mi m' rest depth dis := by
  conv => lhs; unfold decMsg
  unfold decOne
  cases b with
  | nil => exact absurd rfl hb
  | cons x r =>
    simp only [ht, hmax, if_false]
    cases hfind : (S.msg mi).find num with
    | none =>
      simp only
      cases hc : consumeFieldValue num wt (List.drop tl (x :: r)) <;> simp only
    | some f =>
      simp only
      cases hstep : decField fuel S mi m f wt (List.drop tl (x :: r)) depth dis with
      | err e => simp only
      | ok m' => simp only; cases hc : consumeFieldValue num wt (List.drop tl (x :: r)) <;> simp only
      | unknown => simp only; cases hc : consumeFieldValue num wt (List.drop tl (x :: r)) <;> simp only

/-- sorted field lists are determined by their `get?` -/
theorem Fields.ext_sorted : ∀ {a b : Fields} {lb : Nat}, a.sortedFrom lb → b.sortedFrom lb →
    (∀ k, a.get? k = b.get? k) → a = b
  | .nil, .nil, _, _, _, _ => rfl
  | .nil, .cons n x tl, _, _, _, h => by have := h n; simp [Fields.get?] at this
  | .cons n x tl, .nil, _, _, _, h => by have := h n; simp [Fields.get?] at this
  | .cons n x tl, .cons n' x' tl', lb, ⟨h1, h2⟩, ⟨h1', h2'⟩, h => by
    have hn : n = n' := by
      rcases Nat.lt_trichotomy n n' with hlt | heq | hgt
      · have := h n
        rw [Fields.get?_cons, Fields.get?_cons] at this
        have ne : ¬ n' = n := by omega
        simp only [if_true, ne, if_false] at this
        rw [Fields.get?_of_sortedFrom (by omega) h2'] at this; cases this
      · exact heq
      · have := h n'
        rw [Fields.get?_cons, Fields.get?_cons] at this
        have ne : ¬ n = n' := by omega
        simp only [if_true, ne, if_false] at this
        rw [Fields.get?_of_sortedFrom (by omega) h2] at this; cases this
    subst hn
    have hx : x = x' := by
      have := h n; simp only [Fields.get?_cons, if_true, Option.some.injEq] at this; exact this
    subst hx
    congr 1
    apply Fields.ext_sorted h2 h2'
    intro k
    have := h k
    rw [Fields.get?_cons, Fields.get?_cons] at this
    by_cases hk : n = k
    · subst hk
      rw [Fields.get?_of_sortedFrom (by omega) h2, Fields.get?_of_sortedFrom (by omega) h2']
    · simpa only [hk, if_false] using this

end Pb
