import PbVerif.Lemmas.JsonTextScalar
/-
Scalar values through the text format: prototext `marshalSingular` then `unmarshalScalar`
(on the `text.Scalar` token), every kind and every value, under the laws `TLaws` of the lexical layer.
-/
namespace JT
open Pb

/-- a scalar value that a Go message can hold in field `fx` and that prototext accepts: as for JSON, except that
only fields that enforce UTF-8 need valid strings, and float32 values must be among those for which the
lexical law is claimed -/
def wfScalarT (ok32 : Nat → Bool) (fx : FieldX) : Val → Bool
  | .num n =>
    (match fx.f.kind with
     | .bool => decide (n ≤ 1)
     | .float => decide (n < 2 ^ 32) && (isNaN32 n || n == inf32 || n == ninf32 || ok32 n)
     | .double => decide (n < 2 ^ 64)
     | .int32 | .sint32 | .sfixed32 | .enum | .uint32 | .fixed32 | .int64 | .sint64 | .sfixed64 | .uint64 | .fixed64 =>
       decide (n < 2 ^ 64) && inRange fx.f.kind (goInt fx.f.kind n)
     | _ => false)
  | .bytes b =>
    (match fx.f.kind with
     | .string => !(fx.f.utf8 && !utf8Valid b)
     | .bytes => true
     | _ => false)
  | .msg _ => false

/-- enum value names are identifiers: none starts with `-` -/
def namesNoDash (evs : List EnumVal) : Prop := ∀ ev ∈ evs, ev.name.head? ≠ some dash

theorem byNumber_mem {evs : List EnumVal} {i : Int} {name : Str} (h : byNumber evs i = some name) :
    ∃ ev ∈ evs, ev.name = name := by
  unfold byNumber at h
  cases hf : evs.find? (·.num == i) with
  | none => simp [hf] at h
  | some e =>
    simp [hf] at h
    exact ⟨e, List.mem_of_find?_eq_some hf, h⟩

theorem boolLit_true : boolLit sTrue = some true := by decide
theorem boolLit_false : boolLit sFalse = some false := by decide
theorem floatLit_nan : floatLit sNan = some (nan32, nan64) := by decide
theorem floatLit_inf : floatLit sInfT = some (inf32, inf64) := by decide
theorem floatLit_ninf : floatLit sNegInfT = some (ninf32, ninf64) := by decide

/-- **every scalar kind, every value** (text) -/
theorem tdTok_tScalar (C : TCodec) (ok32 : Nat → Bool) (L : TLaws C ok32) (fx : FieldX) (v : Val)
    (hw : wfScalarT ok32 fx v = true) (hen : namesDistinct fx.enums) (hnd : namesNoDash fx.enums) :
    ∃ t, tScalar C fx v = .ok t ∧ tdTok C fx t = .ok (normScalar fx v) := by
  cases v with
  | msg m => simp [wfScalarT] at hw
  | bytes b =>
    unfold wfScalarT at hw
    cases hk : fx.f.kind <;> simp only [hk] at hw <;> try (cases hw; done)
    · -- string
      have hu : (fx.f.utf8 && !utf8Valid b) = false := by
        cases h1 : fx.f.utf8 <;> cases h2 : utf8Valid b <;> simp [h1, h2] at hw ⊢
      exact ⟨.str b, by simp [tScalar, hk, hu], by simp [tdTok, hk, hu, normScalar]⟩
    · -- bytes
      exact ⟨.str b, by simp [tScalar, hk], by simp [tdTok, hk, normScalar]⟩
  | num n =>
    unfold wfScalarT at hw
    cases hk : fx.f.kind <;> simp only [hk] at hw <;> try (cases hw; done)
    case bool =>
      have hn : n ≤ 1 := by simpa using hw
      have : n = 0 ∨ n = 1 := by omega
      rcases this with rfl | rfl
      · exact ⟨.lit sFalse, by simp [tScalar, hk], by simp [tdTok, hk, boolLit_false, normScalar, normNum]⟩
      · exact ⟨.lit sTrue, by simp [tScalar, hk], by simp [tdTok, hk, boolLit_true, normScalar, normNum]⟩
    case float =>
      simp only [Bool.and_eq_true, decide_eq_true_eq, Bool.or_eq_true, beq_iff_eq] at hw
      obtain ⟨hn, hok⟩ := hw
      simp only [tScalar, hk, tFloat, normScalar, normNum]
      by_cases h1 : isNaN32 n = true
      · exact ⟨.lit sNan, by simp [h1], by simp [tdTok, hk, h1, floatLit_nan]⟩
      · have h1' : isNaN32 n = false := by simpa using h1
        by_cases h2 : n = inf32
        · exact ⟨.lit sInfT, by simp [h1', h2, inf32, isNaN32], by
            subst h2
            simp [tdTok, hk, h1', floatLit_inf]⟩
        · by_cases h3 : n = ninf32
          · exact ⟨.lit sNegInfT, by subst h3; simp [ninf32, inf32, isNaN32], by
              subst h3
              simp [tdTok, hk, h1', floatLit_ninf]⟩
          · have hok' : ok32 n = true := by
              rcases hok with ((h | h) | h) | h
              · exact absurd h h1
              · exact absurd h h2
              · exact absurd h h3
              · exact h
            exact ⟨.num (C.fmtF32 n), by simp [h1', h2, h3], by
              simp [tdTok, hk, h1', L.f32 n hn h1' h2 h3 hok']⟩
    case double =>
      have hn : n < 2 ^ 64 := by simpa using hw
      simp only [tScalar, hk, tFloat, normScalar, normNum]
      by_cases h1 : isNaN64 n = true
      · exact ⟨.lit sNan, by simp [h1], by simp [tdTok, hk, h1, floatLit_nan]⟩
      · have h1' : isNaN64 n = false := by simpa using h1
        by_cases h2 : n = inf64
        · exact ⟨.lit sInfT, by simp [h1', h2, inf64, isNaN64], by
            subst h2
            simp [tdTok, hk, h1', floatLit_inf]⟩
        · by_cases h3 : n = ninf64
          · exact ⟨.lit sNegInfT, by subst h3; simp [ninf64, inf64, isNaN64], by
              subst h3
              simp [tdTok, hk, h1', floatLit_ninf]⟩
          · exact ⟨.num (C.fmtF64 n), by simp [h1', h2, h3], by
              simp [tdTok, hk, h1', L.f64 n hn h1' h2 h3]⟩
    case enum =>
      simp only [Bool.and_eq_true, decide_eq_true_eq] at hw
      obtain ⟨hn, hr⟩ := hw
      have hr' : inRange .enum (signed64 n) = true := by simpa [goInt, isSigned] using hr
      have hs := signed64_range n hn
      cases hb : byNumber fx.enums (signed64 n) with
      | none =>
        exact ⟨.num (C.fmtInt (signed64 n)), by simp [tScalar, hk, hb], by
          simp [tdTok, hk, L.numInt _ hs.1 hs.2, hr', unsigned64_signed64 n hn, normScalar, normNum]⟩
      | some name =>
        obtain ⟨ev, hev, hname⟩ := byNumber_mem hb
        have hd : (name.head? == some dash) = false := by
          have := hnd ev hev
          rw [hname] at this
          simpa using this
        exact ⟨.lit name, by simp [tScalar, hk, hb], by
          simp [tdTok, hk, hd, byName_byNumber hen hb, unsigned64_signed64 n hn, normScalar, normNum]⟩
    all_goals
      (simp only [Bool.and_eq_true, decide_eq_true_eq] at hw
       obtain ⟨hn, hr⟩ := hw
       have hs := signed64_range n hn)
    case int32 =>
      have hr' : inRange .int32 (signed64 n) = true := by simpa [goInt, isSigned] using hr
      exact ⟨.num (C.fmtInt (signed64 n)), by simp [tScalar, hk], by
        simp [tdTok, hk, L.numInt _ hs.1 hs.2, hr', unsigned64_signed64 n hn, normScalar, normNum]⟩
    case sint32 =>
      have hr' : inRange .sint32 (signed64 n) = true := by simpa [goInt, isSigned] using hr
      exact ⟨.num (C.fmtInt (signed64 n)), by simp [tScalar, hk], by
        simp [tdTok, hk, L.numInt _ hs.1 hs.2, hr', unsigned64_signed64 n hn, normScalar, normNum]⟩
    case sfixed32 =>
      have hr' : inRange .sfixed32 (signed64 n) = true := by simpa [goInt, isSigned] using hr
      exact ⟨.num (C.fmtInt (signed64 n)), by simp [tScalar, hk], by
        simp [tdTok, hk, L.numInt _ hs.1 hs.2, hr', unsigned64_signed64 n hn, normScalar, normNum]⟩
    case int64 =>
      have hr' : inRange .int64 (signed64 n) = true := by simpa [goInt, isSigned] using hr
      exact ⟨.num (C.fmtInt (signed64 n)), by simp [tScalar, hk], by
        simp [tdTok, hk, L.numInt _ hs.1 hs.2, hr', unsigned64_signed64 n hn, normScalar, normNum]⟩
    case sint64 =>
      have hr' : inRange .sint64 (signed64 n) = true := by simpa [goInt, isSigned] using hr
      exact ⟨.num (C.fmtInt (signed64 n)), by simp [tScalar, hk], by
        simp [tdTok, hk, L.numInt _ hs.1 hs.2, hr', unsigned64_signed64 n hn, normScalar, normNum]⟩
    case sfixed64 =>
      have hr' : inRange .sfixed64 (signed64 n) = true := by simpa [goInt, isSigned] using hr
      exact ⟨.num (C.fmtInt (signed64 n)), by simp [tScalar, hk], by
        simp [tdTok, hk, L.numInt _ hs.1 hs.2, hr', unsigned64_signed64 n hn, normScalar, normNum]⟩
    case uint32 =>
      have hr' : inRange .uint32 (n : Int) = true := by simpa [goInt, isSigned] using hr
      exact ⟨.num (C.fmtInt (n : Int)), by simp [tScalar, hk], by
        simp [tdTok, hk, L.numUint n hn, hr', normScalar, normNum]⟩
    case fixed32 =>
      have hr' : inRange .fixed32 (n : Int) = true := by simpa [goInt, isSigned] using hr
      exact ⟨.num (C.fmtInt (n : Int)), by simp [tScalar, hk], by
        simp [tdTok, hk, L.numUint n hn, hr', normScalar, normNum]⟩
    case uint64 =>
      have hr' : inRange .uint64 (n : Int) = true := by simpa [goInt, isSigned] using hr
      exact ⟨.num (C.fmtInt (n : Int)), by simp [tScalar, hk], by
        simp [tdTok, hk, L.numUint n hn, hr', normScalar, normNum]⟩
    case fixed64 =>
      have hr' : inRange .fixed64 (n : Int) = true := by simpa [goInt, isSigned] using hr
      exact ⟨.num (C.fmtInt (n : Int)), by simp [tScalar, hk], by
        simp [tdTok, hk, L.numUint n hn, hr', normScalar, normNum]⟩

end JT
