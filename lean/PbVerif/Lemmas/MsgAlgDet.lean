import PbVerif.Lemmas.MsgAlgSort
/-
Idempotence of the deterministic normal form `detMsg`: helper definitions and lemmas.
Core-only.
-/
namespace Pb
open Spec (Byte)

/-- two map entries that can be told apart by `GenericKeyOrder` on key kind `kk`: entry messages
with distinct field numbers and distinct canonical keys -/
def DistinctEntries (kk : Kind) (a b : Val) : Prop :=
  ∃ ea eb ka kb, a = .msg ea ∧ b = .msg eb ∧ entryKey ea = some ka ∧ entryKey eb = some kb ∧
    ea.fields.nums.Nodup ∧ eb.fields.nums.Nodup ∧ KeyCanon kk ka ∧ KeyCanon kk kb ∧ ka ≠ kb

def keyCanonB (kk : Kind) : Val → Bool
  | .num n => kk != .string && decide (n < 2 ^ 64)
  | .bytes _ => kk == .string
  | .msg _ => false

theorem keyCanonB_iff (kk : Kind) (v : Val) : keyCanonB kk v = true ↔ KeyCanon kk v := by
  cases v <;> simp [keyCanonB, KeyCanon]

/-- every entry is an entry message whose key is canonical for key kind `kk` -/
def entryKeysCanon (kk : Kind) : Vals → Bool
  | .nil => true
  | .cons (.msg e) tl =>
    (match entryKey e with
     | some k => keyCanonB kk k
     | none => false) && entryKeysCanon kk tl
  | .cons _ _ => false

/-! `ckMsg`: map keys are canonical for the key kind declared by the entry descriptor, at every
level (numbers < 2^64, byte strings exactly for string keys) -/
mutual
def ckMsg (S : Schema) (mi : Nat) : Msg → Bool
  | .mk fs _ => ckFields S (S.msg mi) fs
def ckFields (S : Schema) (d : MsgD) : Fields → Bool
  | .nil => true
  | .cons n fv tl =>
    (match d.find n with
     | some f => ckFVal S f fv
     | none => true) && ckFields S d tl
def ckFVal (S : Schema) (f : Field) : FVal → Bool
  | .one v => ckVal S f v
  | .many vs =>
    ckVals S f vs &&
    (if f.card = .map then
       match (S.msg f.sub).find 1 with
       | some kf => entryKeysCanon kf.kind vs
       | none => true
     else true)
def ckVal (S : Schema) (f : Field) : Val → Bool
  | .msg m => ckMsg S f.sub m
  | _ => true
def ckVals (S : Schema) (f : Field) : Vals → Bool
  | .nil => true
  | .cons v tl => ckVal S f v && ckVals S f tl
end

theorem entryKeysCanon_mem {kk : Kind} {vs : Vals} (h : entryKeysCanon kk vs = true) {e : Msg} {k : Val}
    (hm : Val.msg e ∈ vs.toList) (hk : entryKey e = some k) : KeyCanon kk k := by
  induction vs using Vals.ind with
  | nil => simp [Vals.toList] at hm
  | cons v tl ih =>
    cases v with
    | msg e0 =>
      rw [entryKeysCanon, Bool.and_eq_true] at h
      simp only [Vals.toList, List.mem_cons, Val.msg.injEq] at hm
      rcases hm with rfl | hm
      · have h1 := h.1
        rw [hk] at h1
        exact (keyCanonB_iff _ _).mp h1
      · exact ih h.2 hm
    | num n => simp [entryKeysCanon] at h
    | bytes b => simp [entryKeysCanon] at h

theorem wfMsg_nodup {S : Schema} {mi : Nat} {m : Msg} (h : wfMsg S mi m = true) : m.fields.nums.Nodup := by
  cases m with
  | mk fs u => rw [wfMsg] at h; exact wfFields_nodup h

/-- well-formed entries with canonical keys are pairwise distinguishable -/
theorem distinctEntries_of_wf {S : Schema} {ei : Nat} {kk : Kind} {vs : Vals}
    (hw : wfEntries S ei vs = true) (hc : entryKeysCanon kk vs = true) :
    vs.toList.Pairwise (DistinctEntries kk) := by
  induction vs using Vals.ind with
  | nil => simp [Vals.toList]
  | cons v tl ih =>
    have hw0 := hw
    rw [wfEntries, Bool.and_eq_true] at hw
    have htl : entryKeysCanon kk tl = true := by
      cases v with
      | msg e0 => rw [entryKeysCanon, Bool.and_eq_true] at hc; exact hc.2
      | num n => simp [entryKeysCanon] at hc
      | bytes b => simp [entryKeysCanon] at hc
    simp only [Vals.toList, List.pairwise_cons]
    refine ⟨?_, ih hw.2 htl⟩
    intro b hb
    obtain ⟨e0, k0, hv0, hk0, _, hl0, hwe0⟩ := wfEntries_mem hw0 (v := v) (by simp [Vals.toList])
    obtain ⟨e1, k1, hv1, hk1, _, hl1, hwe1⟩ := wfEntries_mem hw.2 hb
    subst hv0; subst hv1
    refine ⟨e0, e1, k0, k1, rfl, rfl, hk0, hk1, wfMsg_nodup hwe0, wfMsg_nodup hwe1,
      entryKeysCanon_mem hc (by simp [Vals.toList]) hk0,
      entryKeysCanon_mem hc (by simp [Vals.toList, hb]) hk1, ?_⟩
    intro e
    subst e
    -- the head's key is not found among the later entries
    have hx := hw.1
    rw [wfEntry, Bool.and_eq_true, hk0] at hx
    simp only [Bool.and_eq_true] at hx
    rw [hl1] at hx
    simp at hx

/-! ### `detFields`/`detVals` commute with sorting -/

theorem detFields_insertBy (S : Schema) (d : MsgD) (less : Nat → Nat → Bool) (n : Nat) (x : FVal)
    (fs : Fields) :
    detFields S d (Fields.insertBy less n x fs) = Fields.insertBy less n (detField S d n x) (detFields S d fs) := by
  induction fs using Fields.ind with
  | nil => simp only [Fields.insertBy, detFields_cons]; rw [detFields]; rfl
  | cons m y tl ih =>
    simp only [Fields.insertBy, detFields_cons]
    split
    · simp only [detFields_cons]
    · simp only [detFields_cons, ih]

theorem detFields_sortBy (S : Schema) (d : MsgD) (less : Nat → Nat → Bool) (fs : Fields) :
    detFields S d (Fields.sortBy less fs) = Fields.sortBy less (detFields S d fs) := by
  induction fs using Fields.ind with
  | nil => simp only [Fields.sortBy]; rw [detFields]; rfl
  | cons m y tl ih => simp only [Fields.sortBy, detFields_cons, detFields_insertBy, ih]

/-- sorting twice = sorting once, for distinct field numbers -/
theorem sortFields_idem (d : MsgD) (fs : Fields) (hn : fs.nums.Nodup) :
    Fields.sortBy (legacyLess d) (Fields.sortBy (legacyLess d) fs) = Fields.sortBy (legacyLess d) fs := by
  apply Fields.toList_inj
  rw [Fields.toList_sortBy, Fields.toList_sortBy]
  apply insSort_of_sorted
  refine insSort_sorted (lt := fstLt (legacyLess d)) ?_ _ ?_
  · intro a b c; exact legacyLess_trans d a.1 b.1 c.1
  · rw [Fields.nums_eq_map, List.Nodup, List.pairwise_map] at hn
    exact hn.imp (fun h => legacyLess_total d _ _ h)

theorem detVals_fixed (S : Schema) (f : Field) (vs : Vals)
    (h : ∀ v ∈ vs.toList, detVal S f v = v) : detVals S f vs = vs := by
  induction vs using Vals.ind with
  | nil => rw [detVals]
  | cons v tl ih =>
    rw [detVals, h v (by simp [Vals.toList]), ih (fun w hw => h w (by simp [Vals.toList, hw]))]

end Pb
