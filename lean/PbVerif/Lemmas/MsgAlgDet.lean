import PbVerif.Lemmas.MsgAlgSort
/-
Idempotence of the deterministic normal form `detMsg`: helper definitions and lemmas.
Core-only.
-/
namespace Pb
open Spec (Byte)

/-- two map entries that can be told apart by `GenericKeyOrder` on key kind `kk`: entry messages
with distinct field numbers and distinct canonical keys -/
def DistinctEntries (kk : Kind) (a b : Val) : Prop :=
  ∃ ea eb ka kb, a = .msg ea ∧ b = .msg eb ∧ entryKey ea = some ka ∧ entryKey eb = some kb ∧
    ea.fields.nums.Nodup ∧ eb.fields.nums.Nodup ∧ KeyCanon kk ka ∧ KeyCanon kk kb ∧ ka ≠ kb

def keyCanonB (kk : Kind) : Val → Bool
  | .num n => kk != .string && decide (n < 2 ^ 64)
  | .bytes _ => kk == .string
  | .msg _ => false

theorem keyCanonB_iff (kk : Kind) (v : Val) : keyCanonB kk v = true ↔ KeyCanon kk v := by
  cases v <;> simp [keyCanonB, KeyCanon]

/-- every entry is an entry message whose key is canonical for key kind `kk` -/
def entryKeysCanon (kk : Kind) : Vals → Bool
  | .nil => true
  | .cons (.msg e) tl =>
    (match entryKey e with
     | some k => keyCanonB kk k
     | none => false) && entryKeysCanon kk tl
  | .cons _ _ => false

/-! `ckMsg`: map keys are canonical for the key kind declared by the entry descriptor, at every
level (numbers < 2^64, byte strings exactly for string keys) -/
mutual
def ckMsg (S : Schema) (mi : Nat) : Msg → Bool
  | .mk fs _ => ckFields S (S.msg mi) fs
def ckFields (S : Schema) (d : MsgD) : Fields → Bool
  | .nil => true
  | .cons n fv tl =>
    (match d.find n with
     | some f => ckFVal S f fv
     | none => true) && ckFields S d tl
def ckFVal (S : Schema) (f : Field) : FVal → Bool
  | .one v => ckVal S f v
  | .many vs =>
    ckVals S f vs &&
    (if f.card = .map then
       match (S.msg f.sub).find 1 with
       | some kf => entryKeysCanon kf.kind vs
       | none => true
     else true)
def ckVal (S : Schema) (f : Field) : Val → Bool
  | .msg m => ckMsg S f.sub m
  | _ => true
def ckVals (S : Schema) (f : Field) : Vals → Bool
  | .nil => true
  | .cons v tl => ckVal S f v && ckVals S f tl
end

theorem entryKeysCanon_mem {kk : Kind} {vs : Vals} (h : entryKeysCanon kk vs = true) {e : Msg} {k : Val}
    (hm : Val.msg e ∈ vs.toList) (hk : entryKey e = some k) : KeyCanon kk k := by
  induction vs using Vals.ind with
  | nil => simp [Vals.toList] at hm
  | cons v tl ih =>
    cases v with
    | msg e0 =>
      rw [entryKeysCanon, Bool.and_eq_true] at h
      simp only [Vals.toList, List.mem_cons, Val.msg.injEq] at hm
      rcases hm with rfl | hm
      · have h1 := h.1
        rw [hk] at h1
        exact (keyCanonB_iff _ _).mp h1
      · exact ih h.2 hm
    | num n => simp [entryKeysCanon] at h
    | bytes b => simp [entryKeysCanon] at h

theorem wfMsg_nodup {S : Schema} {mi : Nat} {m : Msg} (h : wfMsg S mi m = true) : m.fields.nums.Nodup := by
  cases m with
  | mk fs u => rw [wfMsg] at h; exact wfFields_nodup h

/-- well-formed entries with canonical keys are pairwise distinguishable -/
theorem distinctEntries_of_wf {S : Schema} {ei : Nat} {kk : Kind} {vs : Vals}
    (hw : wfEntries S ei vs = true) (hc : entryKeysCanon kk vs = true) :
    vs.toList.Pairwise (DistinctEntries kk) := by
  induction vs using Vals.ind with
  | nil => simp [Vals.toList]
  | cons v tl ih =>
    have hw0 := hw
    rw [wfEntries, Bool.and_eq_true] at hw
    have htl : entryKeysCanon kk tl = true := by
      cases v with
      | msg e0 => rw [entryKeysCanon, Bool.and_eq_true] at hc; exact hc.2
      | num n => simp [entryKeysCanon] at hc
      | bytes b => simp [entryKeysCanon] at hc
    simp only [Vals.toList, List.pairwise_cons]
    refine ⟨?_, ih hw.2 htl⟩
    intro b hb
    obtain ⟨e0, k0, hv0, hk0, _, hl0, hwe0⟩ := wfEntries_mem hw0 (v := v) (by simp [Vals.toList])
    obtain ⟨e1, k1, hv1, hk1, _, hl1, hwe1⟩ := wfEntries_mem hw.2 hb
    subst hv0; subst hv1
    refine ⟨e0, e1, k0, k1, rfl, rfl, hk0, hk1, wfMsg_nodup hwe0, wfMsg_nodup hwe1,
      entryKeysCanon_mem hc (by simp [Vals.toList]) hk0,
      entryKeysCanon_mem hc (by simp [Vals.toList, hb]) hk1, ?_⟩
    intro e
    subst e
    -- the head's key is not found among the later entries
    have hx := hw.1
    rw [wfEntry, Bool.and_eq_true, hk0] at hx
    simp only [Bool.and_eq_true] at hx
    rw [hl1] at hx
    simp at hx

/-! ### `detFields`/`detVals` commute with sorting -/

theorem detFields_insertBy (S : Schema) (d : MsgD) (less : Nat → Nat → Bool) (n : Nat) (x : FVal)
    (fs : Fields) :
    detFields S d (Fields.insertBy less n x fs) = Fields.insertBy less n (detField S d n x) (detFields S d fs) := by
  induction fs using Fields.ind with
  | nil => simp only [Fields.insertBy, detFields_cons]; rw [detFields]; rfl
  | cons m y tl ih =>
    simp only [Fields.insertBy, detFields_cons]
    split
    · simp only [detFields_cons]
    · simp only [detFields_cons, ih]

theorem detFields_sortBy (S : Schema) (d : MsgD) (less : Nat → Nat → Bool) (fs : Fields) :
    detFields S d (Fields.sortBy less fs) = Fields.sortBy less (detFields S d fs) := by
  induction fs using Fields.ind with
  | nil => simp only [Fields.sortBy]; rw [detFields]; rfl
  | cons m y tl ih => simp only [Fields.sortBy, detFields_cons, detFields_insertBy, ih]

/-- sorting twice = sorting once, for distinct field numbers -/
theorem sortFields_idem (d : MsgD) (fs : Fields) (hn : fs.nums.Nodup) :
    Fields.sortBy (legacyLess d) (Fields.sortBy (legacyLess d) fs) = Fields.sortBy (legacyLess d) fs := by
  apply Fields.toList_inj
  rw [Fields.toList_sortBy, Fields.toList_sortBy]
  apply insSort_of_sorted
  refine insSort_sorted (lt := fstLt (legacyLess d)) ?_ _ ?_
  · intro a b c; exact legacyLess_trans d a.1 b.1 c.1
  · rw [Fields.nums_eq_map, List.Nodup, List.pairwise_map] at hn
    exact hn.imp (fun h => legacyLess_total d _ _ h)

theorem detVals_fixed (S : Schema) (f : Field) (vs : Vals)
    (h : ∀ v ∈ vs.toList, detVal S f v = v) : detVals S f vs = vs := by
  induction vs using Vals.ind with
  | nil => rw [detVals]
  | cons v tl ih =>
    rw [detVals, h v (by simp [Vals.toList]), ih (fun w hw => h w (by simp [Vals.toList, hw]))]

/-! ### entry lookup is invariant under reordering of entries with distinct keys -/

/-- `lookupEntry` on plain lists -/
def lookupEntryL : List Val → Val → Option Msg
  | [], _ => none
  | .msg e :: tl, k => if entryHasKey e k then some e else lookupEntryL tl k
  | _ :: tl, k => lookupEntryL tl k

theorem lookupEntry_eq_L (vs : Vals) (k : Val) : lookupEntry vs k = lookupEntryL vs.toList k := by
  induction vs using Vals.ind with
  | nil => rfl
  | cons v tl ih =>
    cases v with
    | msg e => rw [lookupEntry_cons_msg, Vals.toList, lookupEntryL, ih]
    | num n => rw [lookupEntry_cons_num, Vals.toList, lookupEntryL, ih]; intro e h; cases h
    | bytes b => rw [lookupEntry_cons_bytes, Vals.toList, lookupEntryL, ih]; intro e h; cases h

/-- no key is carried by both entries -/
def KeysDiffer (a b : Val) : Prop :=
  ∀ ea eb k, a = .msg ea → b = .msg eb → entryHasKey ea k = true → entryHasKey eb k = true → False

theorem lookupEntryL_perm {l₁ l₂ : List Val} (hp : l₁.Perm l₂) (hd : l₁.Pairwise KeysDiffer) (k : Val) :
    lookupEntryL l₁ k = lookupEntryL l₂ k := by
  induction hp with
  | nil => rfl
  | cons x _ ih =>
    rw [List.pairwise_cons] at hd
    cases x with
    | msg e => simp only [lookupEntryL, ih hd.2]
    | num n => simp only [lookupEntryL, ih hd.2]
    | bytes b => simp only [lookupEntryL, ih hd.2]
  | swap x y l =>
    rw [List.pairwise_cons] at hd
    have hxy := hd.1 x (List.mem_cons_self ..)
    cases x with
    | msg ex =>
      cases y with
      | msg ey =>
        simp only [lookupEntryL]
        by_cases h1 : entryHasKey ex k = true
        · by_cases h2 : entryHasKey ey k = true
          · exact (hxy ey ex k rfl rfl h2 h1).elim
          · simp [h1, h2]
        · simp [h1]
      | num n => simp only [lookupEntryL]
      | bytes b => simp only [lookupEntryL]
    | num n => cases y <;> simp only [lookupEntryL]
    | bytes b => cases y <;> simp only [lookupEntryL]
  | trans h1 _ ih1 ih2 =>
    exact (ih1 hd).trans (ih2 ((h1.pairwise_iff (fun h ea eb k e1 e2 k1 k2 => h eb ea k e2 e1 k2 k1)).mp hd))

theorem keysDiffer_of_wf {S : Schema} {ei : Nat} {vs : Vals} (hw : wfEntries S ei vs = true) :
    vs.toList.Pairwise KeysDiffer := by
  induction vs using Vals.ind with
  | nil => simp [Vals.toList]
  | cons v tl ih =>
    have hw0 := hw
    rw [wfEntries, Bool.and_eq_true] at hw
    simp only [Vals.toList, List.pairwise_cons]
    refine ⟨?_, ih hw.2⟩
    intro b hb ea eb k e1 e2 h1 h2
    subst e1; subst e2
    have hx := hw.1
    have hk1 := (entryHasKey_iff _ _).mp h1
    have hk2 := (entryHasKey_iff _ _).mp h2
    rw [wfEntry, Bool.and_eq_true, hk1.1] at hx
    simp only [Bool.and_eq_true] at hx
    have := lookupEntry_isSome_of_mem hb hk2.1 hk2.2
    cases hl : lookupEntry tl k with
    | none => rw [hl] at this; cases this
    | some _ => rw [hl] at hx; simp at hx

/-- normalising the entries of a well-formed map keeps every key -/
theorem lookupEntry_detVals (S : Schema) (f : Field) (vs : Vals) (hw : wfEntries S f.sub vs = true) (k : Val) :
    lookupEntry (detVals S f vs) k = (lookupEntry vs k).map (detMsg S f.sub) := by
  induction vs using Vals.ind with
  | nil => rw [detVals]; rfl
  | cons v tl ih =>
    have hw0 := hw
    rw [wfEntries, Bool.and_eq_true] at hw
    obtain ⟨e, k0, hv, hk0, hs0, _, hwe⟩ := wfEntries_mem hw0 (v := v) (by simp [Vals.toList])
    subst hv
    rw [detVals, detVal, lookupEntry_cons_msg, lookupEntry_cons_msg, ih hw.2]
    have hkd := entryKey_detMsg S f.sub e k0 (wfMsg_nodup hwe) hk0 hs0
    have : entryHasKey (detMsg S f.sub e) k = entryHasKey e k := by
      unfold entryHasKey; rw [hkd, hk0]
    rw [this]
    split <;> rfl

theorem keysDiffer_detVals (S : Schema) (f : Field) (vs : Vals) (hw : wfEntries S f.sub vs = true) :
    (detVals S f vs).toList.Pairwise KeysDiffer := by
  rw [detVals_toList, List.pairwise_map]
  refine List.Pairwise.imp_of_mem ?_ (keysDiffer_of_wf hw)
  intro a b ha hb hab ea eb k e1 e2 h1 h2
  obtain ⟨ea0, ka, hva, hka, hsa, _, hwa⟩ := wfEntries_mem hw ha
  obtain ⟨eb0, kb, hvb, hkb, hsb, _, hwb⟩ := wfEntries_mem hw hb
  subst hva; subst hvb
  rw [detVal] at e1 e2
  cases e1; cases e2
  have hda := entryKey_detMsg S f.sub ea0 ka (wfMsg_nodup hwa) hka hsa
  have hdb := entryKey_detMsg S f.sub eb0 kb (wfMsg_nodup hwb) hkb hsb
  have k1 := ((entryHasKey_iff _ _).mp h1)
  have k2 := ((entryHasKey_iff _ _).mp h2)
  rw [hda] at k1; rw [hdb] at k2
  have e1 := k1.1; have e2 := k2.1
  cases e1; cases e2
  exact hab ea0 eb0 k rfl rfl ((entryHasKey_iff _ _).mpr ⟨hka, hsa⟩) ((entryHasKey_iff _ _).mpr ⟨hkb, hsb⟩)

end Pb
