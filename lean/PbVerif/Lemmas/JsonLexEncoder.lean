import PbVerif.Model.JsonLex
import PbVerif.Lemmas.JsonLexString
import PbVerif.Lemmas.JsonLexDecoder
/-
Helper lemmas for C21: the Encoder (encode.go): `appendString` emits a literal of the string grammar
that parses back to the input; the structural state machine emits token sequences of the value grammar
whatever the indent.
-/
set_option linter.unusedSimpArgs false
namespace JsonLex
open RFC

/-! ### appendString -/

/-- a byte string that is a sequence of RFC 3629 characters (valid UTF-8) -/
inductive Utf8Chars : Bytes → Prop
  | nil : Utf8Chars []
  | cons (u s : Bytes) : Utf8Char u → Utf8Chars s → Utf8Chars (u ++ s)

theorem escapeOf_ctl : ∀ a : Byte, a.toNat < 0x20 → a.toNat ≠ 0x08 → a.toNat ≠ 0x0c → a.toNat ≠ 0x0a →
    a.toNat ≠ 0x0d → a.toNat ≠ 0x09 →
    escapeOf a.toNat = [0x5c#8, 0x75#8, 0x30#8, 0x30#8, hexDigitLower (a.toNat / 16), hexDigitLower (a.toNat % 16)] ∧
    parseHex4 [0x30#8, 0x30#8, hexDigitLower (a.toNat / 16), hexDigitLower (a.toNat % 16)] = some a.toNat := by
  decide

/-- the escape written for a byte `a` that needs one denotes `[a]` in the decoder's grammar -/
theorem escapeOf_dchar (a : Byte) (ha : a < 0x80#8) (hneed : a.toNat < 0x20 ∨ a.toNat = 0x22 ∨ a.toNat = 0x5c) :
    DChar (escapeOf a.toNat) [a] := by
  by_cases h1 : a.toNat = 0x22
  · have : a = 0x22#8 := by bv_omega
    subst this; exact DChar.self _ (Or.inl rfl)
  by_cases h2 : a.toNat = 0x5c
  · have : a = 0x5c#8 := by bv_omega
    subst this; exact DChar.self _ (Or.inr (Or.inl rfl))
  by_cases h3 : a.toNat = 0x08
  · have : a = 0x08#8 := by bv_omega
    subst this; exact DChar.b
  by_cases h4 : a.toNat = 0x0c
  · have : a = 0x0c#8 := by bv_omega
    subst this; exact DChar.f
  by_cases h5 : a.toNat = 0x0a
  · have : a = 0x0a#8 := by bv_omega
    subst this; exact DChar.n
  by_cases h6 : a.toNat = 0x0d
  · have : a = 0x0d#8 := by bv_omega
    subst this; exact DChar.r
  by_cases h7 : a.toNat = 0x09
  · have : a = 0x09#8 := by bv_omega
    subst this; exact DChar.t
  have hlt : a.toNat < 0x20 := by omega
  obtain ⟨he, hp⟩ := escapeOf_ctl a hlt h3 h4 h5 h6 h7
  rw [he]
  have henc : encodeRune a.toNat = [a] := by
    unfold encodeRune; rw [if_pos (by omega)]; simp
  have := DChar.hex 0x30#8 0x30#8 (hexDigitLower (a.toNat / 16)) (hexDigitLower (a.toNat % 16)) a.toNat hp
    (by simp [isSurrogate] <;> omega)
  rwa [henc] at this

theorem appendLoop_succ_cons (fuel : Nat) (a : Byte) (t out : Bytes) :
    appendLoop (fuel + 1) (a :: t) out =
      if (decodeRune (a :: t)).1 = runeError ∧ (decodeRune (a :: t)).2 = 1 then (out, false)
      else if (decodeRune (a :: t)).1 < 0x20 ∨ (decodeRune (a :: t)).1 = 0x22 ∨ (decodeRune (a :: t)).1 = 0x5c then
        appendLoop fuel ((a :: t).drop (decodeRune (a :: t)).2) (out ++ escapeOf (decodeRune (a :: t)).1)
      else appendLoop fuel ((a :: t).drop (decodeRune (a :: t)).2) (out ++ (a :: t).take (decodeRune (a :: t)).2) := by
  rw [appendLoop]

/-- what `appendString` writes between the quotation marks is, in the decoder's grammar, a spelling
of the input -/
theorem appendLoop_sound : ∀ (fuel : Nat) (s out o : Bytes), appendLoop fuel s out = (o, true) →
    ∃ esc, o = out ++ esc ++ [0x22#8] ∧ DChars esc s ∧ Utf8Chars s := by
  intro fuel
  induction fuel with
  | zero => intro s out o h; simp [appendLoop] at h
  | succ fuel ih =>
    intro s out o h
    rcases s with _ | ⟨a, t⟩
    · simp only [appendLoop, Prod.mk.injEq, and_true] at h
      exact ⟨[], by simp [h], DChars.nil, Utf8Chars.nil⟩
    · rw [appendLoop_succ_cons] at h
      split at h
      · simp at h
      next herr =>
      obtain ⟨u, t', hs, hu, hlen, h1, h2⟩ := decodeRune_sound a t herr
      have hdrop : (a :: t).drop (decodeRune (a :: t)).2 = t' := by rw [← hlen, hs]; simp
      have htake : (a :: t).take (decodeRune (a :: t)).2 = u := by rw [← hlen, hs]; simp
      split at h
      next hneed =>
        -- escaped: the rune is below 0x80, hence a single byte
        obtain ⟨hr, hn, ha⟩ := decodeRune_ascii a t herr (by omega)
        have hu1 : u = [a] := by
          have : u.length = 1 := by omega
          rcases u with _ | ⟨x, _ | _⟩ <;> simp at this
          simp at hs; rw [hs.1]
        rw [hdrop, hr] at h
        obtain ⟨esc, rfl, hesc, hutf⟩ := ih _ _ _ h
        rw [hr] at hneed
        refine ⟨escapeOf a.toNat ++ esc, by simp, ?_, ?_⟩
        · rw [hs, hu1]; exact DChars.cons _ _ _ _ (escapeOf_dchar a ha hneed) hesc
        · rw [hs]; exact Utf8Chars.cons u t' hu hutf
      next hneed =>
        rw [hdrop, htake] at h
        obtain ⟨esc, rfl, hesc, hutf⟩ := ih _ _ _ h
        refine ⟨u ++ esc, by simp, ?_, ?_⟩
        · rw [hs]
          refine DChars.cons _ _ _ _ (DChar.unescaped u hu ?_) hesc
          intro x hx
          have hr := h1 x hx
          rw [hr] at hneed
          simp only [not_or] at hneed
          refine ⟨by bv_omega, ?_, ?_⟩
          · intro hx2; subst hx2; exact hneed.2.1 rfl
          · intro hx2; subst hx2; exact hneed.2.2 rfl
        · rw [hs]; exact Utf8Chars.cons u t' hu hutf

/-- `appendString` succeeds on every valid UTF-8 string -/
theorem appendLoop_complete {s : Bytes} (h : Utf8Chars s) : ∀ (fuel : Nat) (out : Bytes), s.length < fuel →
    (appendLoop fuel s out).2 = true := by
  induction h with
  | nil =>
    intro fuel out hf
    obtain ⟨f, rfl⟩ : ∃ f, fuel = f + 1 := ⟨fuel - 1, by simp at hf; omega⟩
    simp [appendLoop]
  | cons u s hu _ ih =>
    intro fuel out hf
    obtain ⟨f, rfl⟩ : ∃ f, fuel = f + 1 := ⟨fuel - 1, by omega⟩
    have hpos := hu.length_pos
    obtain ⟨a, u', rfl⟩ : ∃ a u', u = a :: u' := by
      cases u with
      | nil => simp at hpos
      | cons a u' => exact ⟨a, u', rfl⟩
    obtain ⟨r, hr, h1, h2⟩ := decodeRune_utf8Char hu s
    rw [List.cons_append] at hr ⊢
    rw [appendLoop_succ_cons, hr]
    have hnerr : ¬ (r = runeError ∧ (a :: u').length = 1) := by
      rintro ⟨hre, hl⟩
      have hu' : u' = [] := by
        cases u' with
        | nil => rfl
        | cons _ _ => simp at hl
      subst hu'
      have := h1 a rfl
      have ha : a ≤ 0x7F#8 := by
        cases hu with
        | one _ h => exact h
      rw [this] at hre; unfold runeError at hre; bv_omega
    simp only
    rw [if_neg hnerr]
    have hdrop : (a :: (u' ++ s)).drop (a :: u').length = s := by
      rw [← List.cons_append]; simp
    have hf' : s.length < f := by simp at hf; omega
    split
    · rw [hdrop]; exact ih f _ hf'
    · rw [hdrop]; exact ih f _ hf'

/-- `appendString(out, s)` only appends to `out` -/
theorem appendLoop_prefix : ∀ (fuel : Nat) (s out x : Bytes),
    appendLoop fuel s (out ++ x) = (out ++ (appendLoop fuel s x).1, (appendLoop fuel s x).2) := by
  intro fuel
  induction fuel with
  | zero => intro s out x; simp [appendLoop]
  | succ fuel ih =>
    intro s out x
    rcases s with _ | ⟨a, t⟩
    · simp [appendLoop]
    · rw [appendLoop_succ_cons, appendLoop_succ_cons]
      split
      · rfl
      · split
        · rw [List.append_assoc, ih]
        · rw [List.append_assoc, ih]

theorem appendString_prefix (out s : Bytes) :
    appendString out s = (out ++ (appendString [] s).1, (appendString [] s).2) := by
  unfold appendString
  rw [appendLoop_prefix]; simp

/-- **appendString**: on success the output is `"` esc `"` where `esc` spells the input in the
decoder's string grammar (hence in the RFC's), and the input is valid UTF-8 -/
theorem appendString_sound (s o : Bytes) (h : appendString [] s = (o, true)) :
    ∃ esc, o = 0x22#8 :: (esc ++ [0x22#8]) ∧ DChars esc s ∧ Utf8Chars s := by
  unfold appendString at h
  obtain ⟨esc, rfl, hesc, hutf⟩ := appendLoop_sound _ _ _ _ h
  exact ⟨esc, by simp, hesc, hutf⟩

theorem appendString_complete (s : Bytes) (h : Utf8Chars s) : (appendString [] s).2 = true := by
  unfold appendString; exact appendLoop_complete h _ _ (by omega)

/-! ### token segments -/

/-- `seg` is a sequence `(ws token)* ws` spelling the RFC tokens `ts` -/
def SegLex (seg : Bytes) (ts : List Tok) : Prop :=
  ∀ x ts0, LexesTo Number JString x ts0 → LexesTo Number JString (x ++ seg) (ts0 ++ ts)

theorem SegLex.ws {w : Bytes} (hw : AllWs w) : SegLex w [] := by
  intro x ts0 h; simpa using h.ws_right hw

theorem SegLex.nil : SegLex [] [] := SegLex.ws AllWs.nil

theorem SegLex.tok {w b w' : Bytes} {t : Tok} (hw : AllWs w) (hs : Spells Number JString t b) (hw' : AllWs w') :
    SegLex (w ++ (b ++ w')) [t] := by
  intro x ts0 h; exact h.snoc hw hs hw'

theorem SegLex.append {a b : Bytes} {ta tb : List Tok} (ha : SegLex a ta) (hb : SegLex b tb) :
    SegLex (a ++ b) (ta ++ tb) := by
  intro x ts0 h
  have := hb _ _ (ha _ _ h)
  simpa using this

theorem SegLex.cast {a b : Bytes} {ta tb : List Tok} (h : SegLex a ta) (h1 : a = b) (h2 : ta = tb) : SegLex b tb := by
  subst h1; subst h2; exact h

theorem SegLex.lexes {seg : Bytes} {ts : List Tok} (h : SegLex seg ts) : LexesTo Number JString seg ts := by
  have := h [] [] (LexesTo.nil [] AllWs.nil)
  simpa using this

/-! ### prepareNext -/

/-- the indent is made of spaces and tabs (`NewEncoder` checks it), the current indentation too -/
def EncOK (e : Enc) : Prop := AllWs e.indent ∧ AllWs e.indents

def sepToks (k : EKind) : List Tok := if k.isValueEnd then [.comma] else []

/-- `e.indents` after `prepareNext` for an opening or value token -/
def indentsAfter (e : Enc) : Bytes :=
  if e.indent.isEmpty = false ∧ e.lastKind.isOpen = true then e.indents ++ e.indent else e.indents

theorem allWs_singleton {c : Byte} (h : isWs c = true) : AllWs [c] := by
  intro d hd; simp at hd; subst hd; exact h

theorem allWs_cons {c : Byte} {t : Bytes} (h : isWs c = true) (ht : AllWs t) : AllWs (c :: t) :=
  AllWs.append (allWs_singleton h) ht

theorem allWs_rnd (rnd : Bool) : AllWs (if rnd then [0x20#8] else ([] : Bytes)) := by
  cases rnd
  · exact AllWs.nil
  · exact allWs_singleton (by decide)

/-- `prepareNext` before a name, a scalar, `{` or `[`: a comma exactly after a complete value, and
whitespace; the indentation grows after an opener -/
theorem prepareNext_start (rnd : Bool) (e : Enc) (next : EKind) (hn : next.isStart = true) (he : EncOK e) :
    ∃ sep, prepareNext rnd e next =
        some { e with lastKind := next, indents := indentsAfter e, out := e.out ++ sep } ∧
      SegLex sep (sepToks e.lastKind) := by
  obtain ⟨hi, his⟩ := he
  have hnc : next.isClose = false := by cases next <;> simp [EKind.isStart, EKind.isClose] at hn ⊢
  have hcomma : ∀ w', AllWs w' → SegLex ([0x2c#8] ++ w') [.comma] := by
    intro w' hw'
    have := SegLex.tok (w := []) AllWs.nil Spells.comma hw'
    simpa using this
  unfold prepareNext
  by_cases hemp : e.indent.isEmpty = true
  · -- compact
    have hia : indentsAfter e = e.indents := by simp [indentsAfter, hemp]
    rw [if_pos hemp, hia]
    by_cases hv : e.lastKind.isValueEnd = true
    · simp only [hv, hn, Bool.and_self, if_true]
      exact ⟨[0x2c#8] ++ (if rnd then [0x20#8] else []), by simp,
        by simpa [sepToks, hv] using hcomma _ (allWs_rnd rnd)⟩
    · simp only [hv, Bool.false_and, if_false]
      refine ⟨[], by simp, ?_⟩
      simp only [Bool.not_eq_true] at hv
      simpa [sepToks, hv] using SegLex.nil
  · rw [if_neg hemp]
    simp only [Bool.not_eq_true] at hemp
    by_cases ho : e.lastKind.isOpen = true
    · have hv : e.lastKind.isValueEnd = false := by
        cases h : e.lastKind <;> simp [h, EKind.isOpen, EKind.isValueEnd] at ho ⊢
      have hia : indentsAfter e = e.indents ++ e.indent := by simp [indentsAfter, hemp, ho]
      simp only [ho, if_true, hnc, Bool.not_false, hia]
      refine ⟨0x0a#8 :: (e.indents ++ e.indent), by simp, ?_⟩
      simpa [sepToks, hv] using SegLex.ws (allWs_cons (by decide) (his.append hi))
    · simp only [Bool.not_eq_true] at ho
      have hia : indentsAfter e = e.indents := by simp [indentsAfter, ho]
      simp only [ho, Bool.false_eq_true, if_false, hia]
      by_cases hv : e.lastKind.isValueEnd = true
      · simp only [hv, if_true, hn]
        refine ⟨[0x2c#8] ++ (0x0a#8 :: e.indents), by simp, ?_⟩
        simpa [sepToks, hv] using hcomma _ (allWs_cons (by decide) his)
      · simp only [hv, Bool.false_eq_true, if_false]
        simp only [Bool.not_eq_true] at hv
        by_cases hname : e.lastKind = .name
        · simp only [hname, if_true]
          refine ⟨[0x20#8] ++ (if rnd then [0x20#8] else []), by simp, ?_⟩
          have : sepToks EKind.name = [] := by simp [sepToks, EKind.isValueEnd]
          rw [this]
          exact SegLex.ws (AllWs.append (allWs_singleton (by decide)) (allWs_rnd rnd))
        · simp only [hname, if_false]
          refine ⟨[], by simp, ?_⟩
          simpa [sepToks, hv] using SegLex.nil

/-- `prepareNext` before `}` or `]`: whitespace only; the indentation shrinks after a complete value -/
theorem prepareNext_close (rnd : Bool) (e : Enc) (next : EKind) (hn : next.isClose = true) (he : EncOK e)
    (X : Bytes) (hX : e.indent.isEmpty = false → e.lastKind.isValueEnd = true → e.indents = X ++ e.indent)
    (hX' : ¬ (e.indent.isEmpty = false ∧ e.lastKind.isValueEnd = true) → e.indents = X) :
    ∃ sep, prepareNext rnd e next = some { e with lastKind := next, indents := X, out := e.out ++ sep } ∧
      AllWs sep ∧ AllWs X := by
  obtain ⟨hi, his⟩ := he
  have hns : next.isStart = false := by cases next <;> simp [EKind.isStart, EKind.isClose] at hn ⊢
  unfold prepareNext
  by_cases hemp : e.indent.isEmpty = true
  · have hx := hX' (by simp [hemp])
    rw [if_pos hemp]
    simp only [hns, Bool.and_false, Bool.false_eq_true, if_false]
    exact ⟨[], by simp [← hx], AllWs.nil, hx ▸ his⟩
  · rw [if_neg hemp]
    simp only [Bool.not_eq_true] at hemp
    by_cases ho : e.lastKind.isOpen = true
    · have hv : e.lastKind.isValueEnd = false := by
        cases h : e.lastKind <;> simp [h, EKind.isOpen, EKind.isValueEnd] at ho ⊢
      have hx := hX' (by simp [hv])
      simp only [ho, if_true, hn, Bool.not_true, Bool.false_eq_true, if_false]
      exact ⟨[], by simp [← hx], AllWs.nil, hx ▸ his⟩
    · simp only [Bool.not_eq_true] at ho
      simp only [ho, Bool.false_eq_true, if_false]
      by_cases hv : e.lastKind.isValueEnd = true
      · have hx := hX hemp hv
        have hXws : AllWs X := by
          intro d hd; exact his d (by rw [hx]; exact List.mem_append_left _ hd)
        have hlen : ¬ (e.indents.length < e.indent.length) := by rw [hx]; simp
        have htake : e.indents.take (e.indents.length - e.indent.length) = X := by
          rw [hx]; simp
        simp only [hv, if_true, hns, Bool.false_eq_true, if_false, hn, hlen, htake]
        exact ⟨0x0a#8 :: X, by simp, allWs_cons (by decide) hXws, hXws⟩
      · have hx := hX' (by simp [hv])
        simp only [hv, Bool.false_eq_true, if_false]
        have hname : e.lastKind ≠ .name ∨ e.lastKind = .name := by
          by_cases h : e.lastKind = .name
          · exact Or.inr h
          · exact Or.inl h
        rcases hname with hname | hname
        · simp only [hname, if_false]
          exact ⟨[], by simp [← hx], AllWs.nil, hx ▸ his⟩
        · simp only [hname, if_true]
          exact ⟨[0x20#8] ++ (if rnd then [0x20#8] else []), by simp [← hx],
            AllWs.append (allWs_singleton (by decide)) (allWs_rnd rnd), hx ▸ his⟩

/-! ### values as trees -/

/-- the literal `WriteString`/`WriteName` emit for `s` -/
def strLit (s : Bytes) : Bytes := (appendString [] s).1

/- the RFC tokens of a value; `memTail`/`elemTail` put a comma in front of every member/element -/
mutual
def toksOf : JVal → List Tok
  | .null => [.null]
  | .bool b => [if b then .true_ else .false_]
  | .num lit => [.number lit]
  | .str s => [.string (strLit s)]
  | .obj ms => .lbrace :: ((memTail ms).tail ++ [.rbrace])
  | .arr es => .lbrack :: ((elemTail es).tail ++ [.rbrack])
def memTail : JMembers → List Tok
  | .nil => []
  | .cons k v rest => .comma :: .string (strLit k) :: .colon :: (toksOf v ++ memTail rest)
def elemTail : JElems → List Tok
  | .nil => []
  | .cons v rest => .comma :: (toksOf v ++ elemTail rest)
end

/- well-formed: strings and names are valid UTF-8, number literals are RFC 8259 numbers -/
mutual
def JVal.WF : JVal → Prop
  | .null => True
  | .bool _ => True
  | .num lit => Number lit
  | .str s => Utf8Chars s
  | .obj ms => ms.WF
  | .arr es => es.WF
def JMembers.WF : JMembers → Prop
  | .nil => True
  | .cons k v rest => Utf8Chars k ∧ v.WF ∧ rest.WF
def JElems.WF : JElems → Prop
  | .nil => True
  | .cons v rest => v.WF ∧ rest.WF
end

theorem strLit_spells {s : Bytes} (h : Utf8Chars s) :
    (appendString [] s).2 = true ∧ Spells Number JString (.string (strLit s)) (strLit s) := by
  have hok := appendString_complete s h
  have : appendString [] s = (strLit s, true) := by rw [← hok]; rfl
  obtain ⟨esc, he, hesc, _⟩ := appendString_sound s _ this
  exact ⟨hok, Spells.string _ (by rw [he]; exact JString.mk esc hesc.jchars)⟩

/-! ### running call sequences -/

theorem encRun_cons {rnd : Bool} {e e' : Enc} {op : Op} (ops : List Op) (h : encStep rnd e op = some (e', true)) :
    encRun rnd e (op :: ops) = encRun rnd e' ops := by
  simp [encRun, h]

theorem encRun_append {rnd : Bool} : ∀ (a : List Op) {e e' : Enc} (b : List Op), encRun rnd e a = some (e', true) →
    encRun rnd e (a ++ b) = encRun rnd e' b := by
  intro a
  induction a with
  | nil => intro e e' b h; simp [encRun] at h; subst h; rfl
  | cons op ops ih =>
    intro e e' b h
    simp only [encRun, List.cons_append] at h ⊢
    split at h
    · cases h
    next e1 hs => exact ih b h
    next e1 hs => simp at h

/-- outcome of writing a complete value (or a non-empty member/element list) starting in state `e` -/
def ValPost (rnd : Bool) (e : Enc) (ops : List Op) (toks : List Tok) : Prop :=
  ∃ e' seg, encRun rnd e ops = some (e', true) ∧ e'.out = e.out ++ seg ∧ SegLex seg toks ∧
    e'.lastKind.isValueEnd = true ∧ e'.indents = indentsAfter e ∧ e'.indent = e.indent

theorem EncOK.after {e e' : Enc} (he : EncOK e) (h1 : e'.indents = indentsAfter e) (h2 : e'.indent = e.indent) :
    EncOK e' := by
  obtain ⟨hi, his⟩ := he
  refine ⟨h2 ▸ hi, ?_⟩
  rw [h1]; unfold indentsAfter
  split
  · exact his.append hi
  · exact his

/-- a scalar call: separator, then the literal -/
theorem enc_scalar (rnd : Bool) (e : Enc) (he : EncOK e) (op : Op) (t : Tok) (b : Bytes)
    (hsp : Spells Number JString t b)
    (hstep : ∀ e1 : Enc, prepareNext rnd e .scalar = some e1 →
      encStep rnd e op = some ({ e1 with out := e1.out ++ b }, true)) :
    ValPost rnd e [op] (sepToks e.lastKind ++ [t]) := by
  obtain ⟨sep, hprep, hsep⟩ := prepareNext_start rnd e .scalar rfl he
  have := hstep _ hprep
  refine ⟨{ e with lastKind := .scalar, indents := indentsAfter e, out := e.out ++ sep ++ b }, sep ++ b,
    by simp [encRun, this], by simp, ?_, rfl, rfl, rfl⟩
  have hb : SegLex b [t] := by
    have := SegLex.tok (w := []) (w' := []) AllWs.nil hsp AllWs.nil
    simpa using this
  exact hsep.append hb

theorem indentsAfter_not_open {e : Enc} (h : e.lastKind.isOpen = false) : indentsAfter e = e.indents := by
  simp [indentsAfter, h]

theorem sepToks_valueEnd {k : EKind} (h : k.isValueEnd = true) : sepToks k = [.comma] := by simp [sepToks, h]
theorem valueEnd_not_open {k : EKind} (h : k.isValueEnd = true) : k.isOpen = false := by
  cases k <;> simp [EKind.isValueEnd, EKind.isOpen] at h ⊢

theorem encRun_single {rnd : Bool} {e e' : Enc} {op : Op} (h : encStep rnd e op = some (e', true)) :
    encRun rnd e [op] = some (e', true) := by
  simp [encRun, h]

/-- an object or array: opener, then nothing or a non-empty list written by `innerOps`, then closer -/
theorem enc_container (rnd : Bool) (e : Enc) (he : EncOK e) (openK closeK : EKind)
    (hoS : openK.isStart = true) (hoO : openK.isOpen = true) (hcC : closeK.isClose = true)
    (hcV : closeK.isValueEnd = true)
    (opOpen opClose : Op) (bo bc : Byte) (tokO tokC : Tok)
    (hso : ∀ e0 e1 : Enc, prepareNext rnd e0 openK = some e1 →
      encStep rnd e0 opOpen = some ({ e1 with out := e1.out ++ [bo] }, true))
    (hsc : ∀ e0 e1 : Enc, prepareNext rnd e0 closeK = some e1 →
      encStep rnd e0 opClose = some ({ e1 with out := e1.out ++ [bc] }, true))
    (hspo : Spells Number JString tokO [bo]) (hspc : Spells Number JString tokC [bc])
    (innerOps : List Op) (innerToks : List Tok)
    (hinner : (innerOps = [] ∧ innerToks = []) ∨
      (∀ e1, EncOK e1 → e1.lastKind = openK → ValPost rnd e1 innerOps innerToks)) :
    ValPost rnd e (opOpen :: (innerOps ++ [opClose])) (sepToks e.lastKind ++ tokO :: (innerToks ++ [tokC])) := by
  obtain ⟨sep, hprep, hsep⟩ := prepareNext_start rnd e openK hoS he
  have hstep := hso e _ hprep
  generalize he1 : ({ ({ e with lastKind := openK, indents := indentsAfter e, out := e.out ++ sep } : Enc) with
      out := ({ e with lastKind := openK, indents := indentsAfter e, out := e.out ++ sep } : Enc).out ++ [bo] } : Enc) = e1
    at hstep
  have f1 : e1.out = e.out ++ (sep ++ [bo]) := by rw [← he1]; simp
  have f2 : e1.lastKind = openK := by rw [← he1]
  have f3 : e1.indents = indentsAfter e := by rw [← he1]
  have f4 : e1.indent = e.indent := by rw [← he1]
  have hok1 : EncOK e1 := he.after f3 f4
  have hopen : SegLex (sep ++ [bo]) (sepToks e.lastKind ++ [tokO]) := by
    refine hsep.append ?_
    have := SegLex.tok (w := []) (w' := []) AllWs.nil hspo AllWs.nil
    simpa using this
  have hclose : SegLex [bc] [tokC] := by
    have := SegLex.tok (w := []) (w' := []) AllWs.nil hspc AllWs.nil
    simpa using this
  have hoV : openK.isValueEnd = false := by
    cases openK <;> simp [EKind.isOpen, EKind.isValueEnd] at hoO ⊢
  rcases hinner with ⟨rfl, rfl⟩ | hinner
  · -- empty container
    obtain ⟨sepc, hprepc, hsepc, _⟩ := prepareNext_close rnd e1 closeK hcC hok1 e1.indents
      (by intro _ h; rw [f2, hoV] at h; cases h) (by intro _; rfl)
    have hstepc := hsc e1 _ hprepc
    refine ⟨{ e1 with lastKind := closeK, indents := e1.indents, out := e1.out ++ sepc ++ [bc] },
      (sep ++ [bo]) ++ (sepc ++ [bc]), ?_, ?_, ?_, hcV, f3, f4⟩
    · rw [List.nil_append, encRun_cons _ hstep]; exact encRun_single hstepc
    · simp [f1]
    · have := hopen.append ((SegLex.ws hsepc).append hclose)
      simpa using this
  · obtain ⟨e2, seg, hrun, hout, hseg, hve, hind, hindent⟩ := hinner e1 hok1 f2
    have hok2 : EncOK e2 := hok1.after hind hindent
    obtain ⟨sepc, hprepc, hsepc, _⟩ := prepareNext_close rnd e2 closeK hcC hok2 e1.indents
      (by
        intro hne _
        rw [hind, hindent]
        rw [hindent] at hne
        simp [indentsAfter, f2, hoO, hne])
      (by
        intro hn
        rw [hind]
        have : e1.indent.isEmpty = true := by
          by_cases h : e2.indent.isEmpty = true
          · rw [← hindent]; exact h
          · exact absurd ⟨by simpa using h, hve⟩ hn
        simp [indentsAfter, this])
    have hstepc := hsc e2 _ hprepc
    refine ⟨{ e2 with lastKind := closeK, indents := e1.indents, out := e2.out ++ sepc ++ [bc] },
      (sep ++ [bo]) ++ (seg ++ (sepc ++ [bc])), ?_, ?_, ?_, hcV, f3, by simp [hindent, f4]⟩
    · rw [encRun_cons _ hstep, encRun_append _ _ hrun]; exact encRun_single hstepc
    · simp [hout, f1]
    · have := hopen.append (hseg.append ((SegLex.ws hsepc).append hclose))
      simpa using this

mutual
theorem enc_val (rnd : Bool) : (v : JVal) → v.WF → ∀ e, EncOK e →
    ValPost rnd e (opsOf v) (sepToks e.lastKind ++ toksOf v)
  | .null, _, e, he => by
    refine enc_scalar rnd e he .null .null litNull Spells.null ?_
    intro e1 h1; simp [encStep, h1]
  | .bool b, _, e, he => by
    cases b
    · refine enc_scalar rnd e he (.bool false) .false_ litFalse Spells.false_ ?_
      intro e1 h1; simp [encStep, h1]
    · refine enc_scalar rnd e he (.bool true) .true_ litTrue Spells.true_ ?_
      intro e1 h1; simp [encStep, h1]
  | .num lit, hwf, e, he => by
    refine enc_scalar rnd e he (.float lit) (.number lit) lit (Spells.number lit hwf) ?_
    intro e1 h1; simp [encStep, h1]
  | .str s, hwf, e, he => by
    obtain ⟨hok, hsp⟩ := strLit_spells (show Utf8Chars s from hwf)
    refine enc_scalar rnd e he (.str s) (.string (strLit s)) (strLit s) hsp ?_
    intro e1 h1
    simp only [encStep, h1, Option.map_some]
    rw [appendString_prefix, hok]; rfl
  | .obj ms, hwf, e, he => by
    have := enc_container rnd e he .objOpen .objClose rfl rfl rfl rfl .startObject .endObject 0x7b#8 0x7d#8
      .lbrace .rbrace (by intro e0 e1 h; simp [encStep, h]) (by intro e0 e1 h; simp [encStep, h])
      Spells.lbrace Spells.rbrace (opsOfMembers ms) (memTail ms).tail
      (by
        cases ms with
        | nil => exact Or.inl ⟨rfl, rfl⟩
        | cons k v rest =>
          refine Or.inr (fun e1 he1 hl => ?_)
          have := enc_mem rnd (.cons k v rest) hwf e1 he1 (by simp)
          simpa [hl, sepToks, EKind.isValueEnd] using this)
    simpa [opsOf, toksOf] using this
  | .arr es, hwf, e, he => by
    have := enc_container rnd e he .arrOpen .arrClose rfl rfl rfl rfl .startArray .endArray 0x5b#8 0x5d#8
      .lbrack .rbrack (by intro e0 e1 h; simp [encStep, h]) (by intro e0 e1 h; simp [encStep, h])
      Spells.lbrack Spells.rbrack (opsOfElems es) (elemTail es).tail
      (by
        cases es with
        | nil => exact Or.inl ⟨rfl, rfl⟩
        | cons v rest =>
          refine Or.inr (fun e1 he1 hl => ?_)
          have := enc_elem rnd (.cons v rest) hwf e1 he1 (by simp)
          simpa [hl, sepToks, EKind.isValueEnd] using this)
    simpa [opsOf, toksOf] using this
theorem enc_mem (rnd : Bool) : (ms : JMembers) → ms.WF → ∀ e, EncOK e → ms ≠ .nil →
    ValPost rnd e (opsOfMembers ms) (sepToks e.lastKind ++ (memTail ms).tail)
  | .nil, _, _, _, hne => absurd rfl hne
  | .cons k v rest, hwf, e, he, _ => by
    obtain ⟨hk, hv, hrest⟩ := hwf
    obtain ⟨hok, hsp⟩ := strLit_spells hk
    obtain ⟨sep, hprep, hsep⟩ := prepareNext_start rnd e .name rfl he
    let e1 : Enc := { e with lastKind := .name, indents := indentsAfter e, out := e.out ++ sep ++ strLit k ++ [0x3a#8] }
    have hstep : encStep rnd e (.name k) = some (e1, true) := by
      simp only [encStep, hprep, Option.map_some]
      rw [appendString_prefix, hok]; simp [e1, strLit]
    have he1 : EncOK e1 := he.after rfl rfl
    have hname : SegLex (sep ++ strLit k ++ [0x3a#8]) (sepToks e.lastKind ++ [.string (strLit k), .colon]) := by
      have h1 := SegLex.tok (w := []) (w' := []) AllWs.nil hsp AllWs.nil
      have h2 := SegLex.tok (w := []) (w' := []) AllWs.nil (Spells.colon (Num := Number) (Str := JString)) AllWs.nil
      have := hsep.append (h1.append h2)
      simpa using this
    obtain ⟨e2, seg2, hrun2, hout2, hseg2, hve2, hind2, hindent2⟩ := enc_val rnd v hv e1 he1
    have he2 : EncOK e2 := he1.after hind2 hindent2
    have hind2' : e2.indents = indentsAfter e := by
      rw [hind2]; exact indentsAfter_not_open (by simp [e1, EKind.isOpen])
    cases rest with
    | nil =>
      refine ⟨e2, (sep ++ strLit k ++ [0x3a#8]) ++ seg2, ?_, by simp [hout2, e1], ?_, hve2, hind2', by simp [hindent2, e1]⟩
      · simp only [opsOfMembers, List.append_nil]
        rw [encRun_cons _ hstep]; exact hrun2
      · have := hname.append hseg2
        simpa [memTail, sepToks, EKind.isValueEnd, e1] using this
    | cons k' v' rest' =>
      obtain ⟨e3, seg3, hrun3, hout3, hseg3, hve3, hind3, hindent3⟩ :=
        enc_mem rnd (.cons k' v' rest') hrest e2 he2 (by simp)
      refine ⟨e3, (sep ++ strLit k ++ [0x3a#8]) ++ (seg2 ++ seg3), ?_, by simp [hout3, hout2, e1], ?_, hve3, ?_,
        by simp [hindent3, hindent2, e1]⟩
      · simp only [opsOfMembers]
        rw [encRun_cons _ hstep, encRun_append _ _ hrun2]; exact hrun3
      · have := hname.append (hseg2.append hseg3)
        rw [sepToks_valueEnd hve2] at this
        simpa [memTail, sepToks, EKind.isValueEnd, e1] using this
      · rw [hind3, indentsAfter_not_open (valueEnd_not_open hve2)]; exact hind2'
theorem enc_elem (rnd : Bool) : (es : JElems) → es.WF → ∀ e, EncOK e → es ≠ .nil →
    ValPost rnd e (opsOfElems es) (sepToks e.lastKind ++ (elemTail es).tail)
  | .nil, _, _, _, hne => absurd rfl hne
  | .cons v rest, hwf, e, he, _ => by
    obtain ⟨hv, hrest⟩ := hwf
    obtain ⟨e2, seg2, hrun2, hout2, hseg2, hve2, hind2, hindent2⟩ := enc_val rnd v hv e he
    have he2 : EncOK e2 := he.after hind2 hindent2
    cases rest with
    | nil =>
      refine ⟨e2, seg2, ?_, hout2, ?_, hve2, hind2, hindent2⟩
      · simp only [opsOfElems, List.append_nil]; exact hrun2
      · simpa [elemTail] using hseg2
    | cons v' rest' =>
      obtain ⟨e3, seg3, hrun3, hout3, hseg3, hve3, hind3, hindent3⟩ :=
        enc_elem rnd (.cons v' rest') hrest e2 he2 (by simp)
      refine ⟨e3, seg2 ++ seg3, ?_, by simp [hout3, hout2], ?_, hve3, ?_, by simp [hindent3, hindent2]⟩
      · simp only [opsOfElems]
        rw [encRun_append _ _ hrun2]; exact hrun3
      · have := hseg2.append hseg3
        rw [sepToks_valueEnd hve2] at this
        simpa [elemTail] using this
      · rw [hind3, indentsAfter_not_open (valueEnd_not_open hve2)]; exact hind2
end

/-! ### the emitted tokens derive from `value` -/

theorem Members.cons' {k : Bytes} {v : List Tok} (hv : Value v) : ∀ {ms : List Tok}, Members ms →
    Members (.string k :: .colon :: (v ++ .comma :: ms))
  | _, .one k' v' hv' => by
    have := Members.snoc _ k' v' (Members.one k v hv) hv'
    simpa using this
  | _, .snoc ms0 k' v' hm hv' => by
    have := Members.snoc _ k' v' (Members.cons' (k := k) hv hm) hv'
    simpa using this

theorem Elems.cons' {v : List Tok} (hv : Value v) : ∀ {es : List Tok}, Elems es → Elems (v ++ .comma :: es)
  | _, .one v' hv' => Elems.snoc v v' (Elems.one v hv) hv'
  | _, .snoc es0 v' he hv' => by
    have := Elems.snoc _ v' (Elems.cons' hv he) hv'
    simpa using this

mutual
theorem toksOf_value : (v : JVal) → Value (toksOf v)
  | .null => Value.null
  | .bool b => by cases b <;> simp [toksOf] <;> constructor
  | .num lit => Value.number lit
  | .str s => Value.string _
  | .obj .nil => Value.emptyObject
  | .obj (.cons k v rest) => by
    have := Value.object _ (memTail_members (.cons k v rest) (by simp))
    simpa [toksOf] using this
  | .arr .nil => Value.emptyArray
  | .arr (.cons v rest) => by
    have := Value.array _ (elemTail_elems (.cons v rest) (by simp))
    simpa [toksOf] using this
theorem memTail_members : (ms : JMembers) → ms ≠ .nil → Members (memTail ms).tail
  | .nil, h => absurd rfl h
  | .cons k v .nil, _ => by
    have := Members.one (strLit k) _ (toksOf_value v)
    simpa [memTail] using this
  | .cons k v (.cons k' v' rest), _ => by
    have h2 := memTail_members (.cons k' v' rest) (by simp)
    have := Members.cons' (k := strLit k) (toksOf_value v) h2
    simpa [memTail] using this
theorem elemTail_elems : (es : JElems) → es ≠ .nil → Elems (elemTail es).tail
  | .nil, h => absurd rfl h
  | .cons v .nil, _ => by
    have := Elems.one _ (toksOf_value v)
    simpa [elemTail] using this
  | .cons v (.cons v' rest), _ => by
    have h2 := elemTail_elems (.cons v' rest) (by simp)
    have := Elems.cons' (toksOf_value v) h2
    simpa [elemTail] using this
end

/-! ### WriteInt / WriteUint literals -/

theorem digit_of_mod : ∀ k, k < 10 → isDigit (BitVec.ofNat 8 (0x30 + k)) = true ∧
    (k ≠ 0 → isDigit19 (BitVec.ofNat 8 (0x30 + k)) = true) := by decide

theorem decimalAux_spec : ∀ (fuel n : Nat) (acc : Bytes), n < fuel →
    ∃ ds, decimalAux fuel n acc = ds ++ acc ∧ AllDigits ds ∧ (n = 0 → ds = [0x30#8]) ∧
      (n ≠ 0 → ∃ c t, ds = c :: t ∧ isDigit19 c = true) := by
  intro fuel
  induction fuel with
  | zero => intro n acc h; omega
  | succ fuel ih =>
    intro n acc h
    have hd := digit_of_mod (n % 10) (Nat.mod_lt _ (by decide))
    simp only [decimalAux]
    by_cases hq : n / 10 = 0
    · rw [if_pos hq]
      refine ⟨[BitVec.ofNat 8 (0x30 + n % 10)], rfl, ?_, ?_, ?_⟩
      · intro d hd'; simp at hd'; subst hd'; exact hd.1
      · intro h0; subst h0; rfl
      · intro h0; exact ⟨_, [], rfl, hd.2 (by omega)⟩
    · rw [if_neg hq]
      obtain ⟨ds, h1, h2, _, h4⟩ := ih (n / 10) (BitVec.ofNat 8 (0x30 + n % 10) :: acc) (by omega)
      obtain ⟨c, t, hct, hc⟩ := h4 hq
      refine ⟨ds ++ [BitVec.ofNat 8 (0x30 + n % 10)], by rw [h1]; simp, ?_, ?_, ?_⟩
      · exact AllDigits.append.2 ⟨h2, by intro d hd'; simp at hd'; subst hd'; exact hd.1⟩
      · intro h0; subst h0; simp at hq
      · intro _; exact ⟨c, t ++ [BitVec.ofNat 8 (0x30 + n % 10)], by rw [hct]; simp, hc⟩

/-- the literal `WriteUint(n)` appends is an RFC 8259 number -/
theorem decimal_intPart (n : Nat) : IntPart (decimal n) := by
  obtain ⟨ds, h1, h2, h3, h4⟩ := decimalAux_spec (n + 1) n [] (by omega)
  unfold decimal
  rw [h1, List.append_nil]
  by_cases h0 : n = 0
  · rw [h3 h0]; exact IntPart.zero
  · obtain ⟨c, t, rfl, hc⟩ := h4 h0
    exact IntPart.nonzero c t hc (AllDigits.cons.1 h2).2

theorem decimal_number (n : Nat) : Number (decimal n) := by
  have := Number.mk [] (decimal n) [] [] MinusOpt.none (decimal_intPart n) FracOpt.none ExpOpt.none
  simpa using this

/-- the literal `WriteInt(n)` appends is an RFC 8259 number -/
theorem intLiteral_number (n : Int) :
    Number (if n < 0 then 0x2d#8 :: decimal n.natAbs else decimal n.natAbs) := by
  split
  · have := Number.mk [0x2d#8] (decimal n.natAbs) [] [] MinusOpt.minus (decimal_intPart _) FracOpt.none ExpOpt.none
    simpa using this
  · exact decimal_number _

end JsonLex
