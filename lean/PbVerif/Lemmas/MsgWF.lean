import PbVerif.Lemmas.WireSpec
import PbVerif.Lemmas.MsgBasic
/-
Well-formedness of a message value w.r.t. a schema: what every decoded (or properly constructed)
message satisfies.  Bool-valued, hence decidable; `Props/C03.lean` proves the round trip under it.
-/
namespace Pb
open Spec (Byte decTag)

/-- a scalar value of the right shape for field `f`, canonical, sized, valid UTF-8 if enforced -/
def wfScalar (f : Field) : Val → Bool
  | .num n => f.kind.isNumeric && decide (CanonNum f.kind n)
  | .bytes b =>
    (f.kind = .string || f.kind = .bytes) && decide (b.length < 2 ^ 64) &&
      !(f.kind = .string && f.utf8 && !utf8Valid b)
  | .msg _ => false

/-- unknown bytes: a sequence of complete wire records whose field numbers are not declared in `d`
(and are ≤ 2^29-1); groups inside nest at most `g` deep -/
def unkOKAux (d : MsgD) (g : Int) : Nat → List Byte → Bool
  | 0, _ => false
  | fuel + 1, b =>
    match b with
    | [] => true
    | _ =>
      match decTag b with
      | .error _ => false
      | .ok (num, wt, tl) =>
        decide (num ≤ maxValidNumber) && (d.find num).isNone &&
        match Spec.consumeFieldValue num wt (b.drop tl) g with
        | .error _ => false
        | .ok n => unkOKAux d g fuel ((b.drop tl).drop n)

def unkOK (d : MsgD) (g : Int) (b : List Byte) : Bool := unkOKAux d g (b.length + 1) b

mutual
/-- `g`: the wire-level group nesting budget left at this message (`protowire.DefaultRecursionLimit`
= 10000 at the top and below every length-delimited boundary, one less inside each group) -/
def cwfMsg (S : Schema) (mi : Nat) (g : Int) : Msg → Bool
  | .mk fs unk => cwfFields S (S.msg mi) g 1 fs && unkOK (S.msg mi) g unk
/-- field numbers strictly ascending from `lb`, declared, at most one member per oneof -/
def cwfFields (S : Schema) (d : MsgD) (g : Int) (lb : Nat) : Fields → Bool
  | .nil => true
  | .cons num fv tl =>
    decide (lb ≤ num) && decide (num ≤ maxValidNumber) &&
    (match d.find num with
     | some f =>
       cwfFVal S g f fv &&
       (match f.oneof with
        | some o => oneofFree d o tl
        | none => true)
     | none => false) &&
    cwfFields S d g (num + 1) tl
def cwfFVal (S : Schema) (g : Int) (f : Field) : FVal → Bool
  | .one v =>
    (f.card != .repeated && f.card != .map) && cwfVal S g f v && !(f.card == .implicit && v.isZero)
  | .many vs =>
    !vs.isNil &&
    (match f.card with
     | .repeated =>
       cwfVals S g f vs &&
       (if f.packed && f.kind.isNumeric then decide (sizePacked f.kind vs < 2 ^ 64) else true)
     | .map =>
       f.kind == .message &&
       (match (S.msg f.sub).find 1, (S.msg f.sub).find 2 with
        | some kf, some vf => cwfEntries S f kf vf vs
        | _, _ => false)
     | _ => false)
/-- one value (one record) of field `f` -/
def cwfVal (S : Schema) (g : Int) (f : Field) : Val → Bool
  | .msg m =>
    f.kind.isMessage &&
    (if f.kind = .group then decide (0 ≤ g) && cwfMsg S f.sub (g - 1) m
     else cwfMsg S f.sub 10000 m && decide (sizeMsg S f.sub m < 2 ^ 64))
  | .num n => !f.kind.isMessage && wfScalar f (.num n)
  | .bytes b => !f.kind.isMessage && wfScalar f (.bytes b)
def cwfVals (S : Schema) (g : Int) (f : Field) : Vals → Bool
  | .nil => true
  | .cons v tl => cwfVal S g f v && cwfVals S g f tl
/-- map entries `(1 ↦ key, 2 ↦ value)`, no unknown bytes, keys pairwise distinct -/
def cwfEntries (S : Schema) (f kf vf : Field) : Vals → Bool
  | .nil => true
  | .cons v tl =>
    cwfEntry S f kf vf v &&
    (match v with
     | .msg e =>
       (match entryKey e with
        | some k => keyFree k tl
        | none => false)
     | _ => false) &&
    cwfEntries S f kf vf tl
def cwfEntry (S : Schema) (f kf vf : Field) : Val → Bool
  | .msg (.mk (.cons n1 (.one k) (.cons n2 (.one v) .nil)) u) =>
    n1 == 1 && n2 == 2 && u.isEmpty && wfScalar kf k && cwfVal S 10000 vf v &&
    decide (sizeMsg S f.sub (.mk (.cons n1 (.one k) (.cons n2 (.one v) .nil)) u) < 2 ^ 64)
  | _ => false
end

/-- **well-formed message of type `mi`** -/
def WF (S : Schema) (mi : Nat) (m : Msg) : Prop := cwfMsg S mi 10000 m = true

instance (S : Schema) (mi : Nat) (m : Msg) : Decidable (WF S mi m) := by unfold WF; infer_instance

/-- `RecursionLimit` suffices for the message -/
def depthOK (m : Msg) (limit : Int) : Prop := (depthMsg m : Int) ≤ limit

instance (m : Msg) (limit : Int) : Decidable (depthOK m limit) := by unfold depthOK; infer_instance

end Pb
