import PbVerif.Lemmas.MsgTotal
/-
Whether (and how) decoding fails does not depend on the destination message.
-/
namespace Pb
open Spec

/-- whether (and how) decoding fails does not depend on the destination message -/
theorem dec_verdict_indep : ∀ (fuel : Nat),
    (∀ S mi m m' b (d : Int) dis e, decMsg fuel S mi m b d dis = .error e → decMsg fuel S mi m' b d dis = .error e) ∧
    (∀ S mi m m' f wt val (d : Int) dis,
      (∀ e, decField fuel S mi m f wt val d dis = .err e → decField fuel S mi m' f wt val d dis = .err e) ∧
      (decField fuel S mi m f wt val d dis = .unknown → decField fuel S mi m' f wt val d dis = .unknown)) ∧
    (∀ S kf vf k v k' v' b (d : Int) dis e, decEntry fuel S kf vf k v b d dis = .error e →
      decEntry fuel S kf vf k' v' b d dis = .error e)
  | 0 => by refine ⟨?_, ?_, ?_⟩ <;> intros <;> simp_all [decMsg, decField, decEntry]
  | fuel + 1 => by
    obtain ⟨ihA, ihB, ihC⟩ := dec_verdict_indep fuel
    refine ⟨?_, ?_, ?_⟩
    · intro S mi m m' b d dis e h
      unfold decMsg at h ⊢
      split at h
      · cases h
      · split at h
        · exact h
        · rename_i num wt tl ht
          simp only at h ⊢
          by_cases hmax : num > maxValidNumber
          · simpa [hmax] using h
          · simp only [hmax, if_false] at h ⊢
            cases hfind : (S.msg mi).find num with
            | none =>
              simp only [hfind] at h ⊢
              split at h
              · exact h
              · exact ihA _ _ _ _ _ _ _ _ h
            | some f =>
              simp only [hfind] at h ⊢
              have hB := ihB S mi m m' f wt (b.drop tl) d dis
              have hB' := ihB S mi m' m f wt (b.drop tl) d dis
              cases hstep : decField fuel S mi m f wt (b.drop tl) d dis with
              | err e1 =>
                simp only [hstep] at h
                rw [hB.1 e1 hstep]; exact h
              | unknown =>
                simp only [hstep] at h
                rw [hB.2 hstep]
                simp only
                split at h
                · exact h
                · exact ihA _ _ _ _ _ _ _ _ h
              | ok m1 =>
                simp only [hstep] at h
                cases hstep' : decField fuel S mi m' f wt (b.drop tl) d dis with
                | err e1 => rw [hB'.1 e1 hstep'] at hstep; cases hstep
                | unknown => rw [hB'.2 hstep'] at hstep; cases hstep
                | ok m1' =>
                  simp only
                  split at h
                  · exact h
                  · exact ihA _ _ _ _ _ _ _ _ h
    · intro S mi m m' f wt val d dis
      constructor
      · intro e h
        unfold decField at h ⊢
        repeat' (first | split at h | (dsimp only at h; split at h))
        all_goals first
          | (cases h; done)
          | (simp only [Step.err.injEq] at h; subst h
             first
               | (simp [*]; done)
               | (simp [*, fun m'' => ihA _ _ _ m'' _ _ _ _ ‹decMsg _ _ _ _ _ _ _ = .error _›]; done)
               | (simp [*, fun k'' v'' => ihC _ _ _ _ _ k'' v'' _ _ _ _ ‹decEntry _ _ _ _ _ _ _ _ _ = .error _›]; done))
      · intro h
        unfold decField at h ⊢
        repeat' (first | split at h | (dsimp only at h; split at h))
        all_goals first
          | (cases h; done)
          | (simp [*]; done)
    · intro S kf vf k v k' v' b d dis e h
      unfold decEntry at h ⊢
      split at h
      · cases h
      · split at h
        · exact h
        · rename_i num wt tl ht
          dsimp only at h ⊢
          by_cases hmax : num > maxValidNumber
          · simpa [hmax] using h
          · simp only [hmax, if_false] at h ⊢
            have hnext : ∀ (nm : Nat) (k1 v1 k2 v2 : Option Val),
                (match consumeFieldValue nm wt (b.drop tl) with
                  | .error _ => (.error .decode : Except DErr (Option Val × Option Val))
                  | .ok n => decEntry fuel S kf vf k1 v1 ((b.drop tl).drop n) d dis) = .error e →
                (match consumeFieldValue nm wt (b.drop tl) with
                  | .error _ => (.error .decode : Except DErr (Option Val × Option Val))
                  | .ok n => decEntry fuel S kf vf k2 v2 ((b.drop tl).drop n) d dis) = .error e := by
              intro nm k1 v1 k2 v2 hh
              split at hh
              · exact hh
              · exact ihC _ _ _ _ _ _ _ _ _ _ _ hh
            by_cases h1 : num = 1
            · simp only [h1, if_true] at h ⊢
              cases hs : decScalar kf wt (b.drop tl) with
              | none => simp only [hs] at h ⊢; exact hnext _ _ _ _ _ h
              | some r =>
                cases r with
                | error e1 => simp only [hs] at h ⊢; exact h
                | ok kv => simp only [hs] at h ⊢; exact hnext _ _ _ _ _ h
            · simp only [h1, if_false] at h ⊢
              by_cases h2 : num = 2
              · simp only [h2, if_true] at h ⊢
                by_cases hm : vf.kind.isMessage = true
                · simp only [hm, if_true] at h ⊢
                  cases hsb : decSubBytes vf wt (b.drop tl) with
                  | none => simp only [hsb] at h ⊢; exact hnext _ _ _ _ _ h
                  | some r =>
                    cases r with
                    | error e1 => simp only [hsb] at h ⊢; exact h
                    | ok p =>
                      simp only [hsb] at h ⊢
                      by_cases hd : d - 1 < 0
                      · simpa [hd] using h
                      · simp only [hd, if_false] at h ⊢
                        split at h
                        · rename_i e1 hd1
                          rw [ihA _ _ _ _ _ _ _ _ hd1]; exact h
                        · rename_i s1 hd1
                          split
                          · rename_i e2 hd2
                            rw [ihA _ _ _ _ _ _ _ _ hd2] at hd1; cases hd1
                          · exact hnext _ _ _ _ _ h
                · simp only [hm, if_false] at h ⊢
                  cases hs : decScalar vf wt (b.drop tl) with
                  | none => simp only [hs] at h ⊢; exact hnext _ _ _ _ _ h
                  | some r =>
                    cases r with
                    | error e1 => simp only [hs] at h ⊢; exact h
                    | ok vv => simp only [hs] at h ⊢; exact hnext _ _ _ _ _ h
              · simp only [h2, if_false] at h ⊢
                exact hnext _ _ _ _ _ h

end Pb
