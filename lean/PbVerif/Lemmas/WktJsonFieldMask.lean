import PbVerif.Model.WktJson
/-! Helper lemmas for C23: FieldMask (`marshalFieldMask` / `unmarshalFieldMask`). -/
set_option linter.unusedSimpArgs false
namespace WktJson

/-! ### characters -/

theorem ofNat_toNat_small : ∀ n, n < 128 → (Char.ofNat n).toNat = n := by decide

/-- characters that can occur in a valid full name -/
def nameChar (c : Char) : Bool := isLetterDigit c || c.toNat = 46

/-- letters, digits and '.' without the underscore: what `JSONCamelCase` leaves of a valid name -/
def camelChar (c : Char) : Bool := isLower c || isUpper c || isDigit c || c.toNat = 46

theorem toNat_underscore {c : Char} : c = '_' ↔ c.toNat = 95 := by
  constructor
  · intro h; subst h; rfl
  · intro h
    have : Char.ofNat c.toNat = Char.ofNat 95 := by rw [h]
    rw [Char.ofNat_toNat] at this
    exact this

theorem toNat_comma {c : Char} (h : c = ',') : c.toNat = 44 := by subst h; rfl

theorem camelChar_props {c : Char} (h : camelChar c = true) : c ≠ '_' ∧ c ≠ ',' ∧ isSpace c = false := by
  simp only [camelChar, isLower, isUpper, isDigit, Bool.or_eq_true, Bool.and_eq_true, decide_eq_true_eq] at h
  refine ⟨?_, ?_, ?_⟩
  · intro e; have := toNat_underscore.mp e; omega
  · intro e; have := toNat_comma e; omega
  · simp only [isSpace, Bool.or_eq_false_iff, Bool.and_eq_false_iff, decide_eq_false_iff_not]
    omega

theorem toUpper_camelChar {c : Char} (h : isLower c = true) : camelChar (toUpper c) = true := by
  simp only [isLower, Bool.and_eq_true, decide_eq_true_eq] at h
  have : (toUpper c).toNat = c.toNat - 32 := by
    unfold toUpper; exact ofNat_toNat_small _ (by omega)
  simp only [camelChar, isLower, isUpper, isDigit, this, Bool.or_eq_true, Bool.and_eq_true, decide_eq_true_eq]
  omega

theorem nameChar_of_valid : ∀ (st : Bool) (s : Str), fullNameValidAux st s = true → ∀ c ∈ s, nameChar c = true := by
  intro st s
  induction s generalizing st with
  | nil => intro _ c hc; cases hc
  | cons a t ih =>
    intro h c hc
    cases st with
    | true =>
      simp only [fullNameValidAux, Bool.and_eq_true] at h
      rcases List.mem_cons.mp hc with e | e
      · subst e; simp [nameChar, isLetterDigit, h.1]
      · exact ih false h.2 c e
    | false =>
      simp only [fullNameValidAux] at h
      split at h
      · next ha =>
        rcases List.mem_cons.mp hc with e | e
        · subst e; subst ha; decide
        · exact ih true h c e
      · simp only [Bool.and_eq_true] at h
        rcases List.mem_cons.mp hc with e | e
        · subst e; simp [nameChar, h.1]
        · exact ih false h.2 c e

theorem camelAux_chars (was : Bool) (s : Str) (h : ∀ c ∈ s, nameChar c = true) :
    ∀ c ∈ jsonCamelCaseAux was s, camelChar c = true := by
  induction s generalizing was with
  | nil => intro c hc; cases hc
  | cons a t ih =>
    have ht : ∀ c ∈ t, nameChar c = true := fun c hc => h c (List.mem_cons_of_mem _ hc)
    have ha := h a List.mem_cons_self
    intro c hc
    simp only [jsonCamelCaseAux] at hc
    split at hc
    · exact ih true ht c hc
    · next hne =>
      rcases List.mem_cons.mp hc with e | e
      · subst e
        split
        · next hw => exact toUpper_camelChar hw.2
        · have hn : a.toNat ≠ 95 := fun e => hne (toNat_underscore.mpr e)
          simp only [nameChar, isLetterDigit, isLetter, Bool.or_eq_true, decide_eq_true_eq] at ha
          simp only [camelChar, Bool.or_eq_true, decide_eq_true_eq]
          rcases ha with (((h1 | h1) | h1) | h1) | h1
          · exact absurd h1 hn
          · exact Or.inl (Or.inl (Or.inl h1))
          · exact Or.inl (Or.inl (Or.inr h1))
          · exact Or.inl (Or.inr h1)
          · exact Or.inr h1
      · exact ih false ht c e

/-! ### split / join -/

theorem splitComma_no_comma (x : Str) (h : ∀ c ∈ x, c ≠ ',') : splitComma x = [x] := by
  induction x with
  | nil => rfl
  | cons c t ih =>
    simp only [splitComma]
    rw [if_neg (h c List.mem_cons_self), ih (fun c hc => h c (List.mem_cons_of_mem _ hc))]
    rfl

theorem splitComma_append (x : Str) (rest : Str) (h : ∀ c ∈ x, c ≠ ',') :
    splitComma (x ++ ',' :: rest) = x :: splitComma rest := by
  induction x with
  | nil => simp [splitComma]
  | cons c t ih =>
    simp only [List.cons_append, splitComma]
    rw [if_neg (h c List.mem_cons_self), ih (fun c hc => h c (List.mem_cons_of_mem _ hc))]
    rfl

theorem splitComma_joinComma (xs : List Str) (hne : xs ≠ []) (h : ∀ x ∈ xs, ∀ c ∈ x, c ≠ ',') :
    splitComma (joinComma xs) = xs := by
  induction xs with
  | nil => exact absurd rfl hne
  | cons x r ih =>
    cases r with
    | nil => exact splitComma_no_comma x (h x List.mem_cons_self)
    | cons y r' =>
      simp only [joinComma]
      rw [splitComma_append x _ (h x List.mem_cons_self),
        ih (by simp) (fun z hz => h z (List.mem_cons_of_mem _ hz))]

theorem dropWhile_id {p : Char → Bool} (s : Str) (h : ∀ c ∈ s, p c = false) : s.dropWhile p = s := by
  cases s with
  | nil => rfl
  | cons c t => simp [List.dropWhile, h c List.mem_cons_self]

theorem trimSpace_id (s : Str) (h : ∀ c ∈ s, isSpace c = false) : trimSpace s = s := by
  unfold trimSpace
  rw [dropWhile_id s h, dropWhile_id s.reverse (fun c hc => h c (List.mem_reverse.mp hc)), List.reverse_reverse]

theorem joinComma_chars (xs : List Str) (p : Char → Prop) (hp : p ',') (h : ∀ x ∈ xs, ∀ c ∈ x, p c) :
    ∀ c ∈ joinComma xs, p c := by
  induction xs with
  | nil => intro c hc; cases hc
  | cons x r ih =>
    cases r with
    | nil => exact h x List.mem_cons_self
    | cons y r' =>
      intro c hc
      simp only [joinComma, List.mem_append, List.mem_cons] at hc
      rcases hc with hc | hc | hc
      · exact h x List.mem_cons_self c hc
      · subst hc; exact hp
      · exact ih (fun z hz => h z (List.mem_cons_of_mem _ hz)) c hc

theorem joinComma_ne_nil (x : Str) (r : List Str) (hx : x ≠ []) : joinComma (x :: r) ≠ [] := by
  cases r with
  | nil => exact hx
  | cons y r' => simp [joinComma, hx]

/-! ### the marshal loop -/

theorem jsonSnakeCase_nil_iff (s : Str) : jsonSnakeCase s = [] ↔ s = [] := by
  cases s with
  | nil => simp [jsonSnakeCase]
  | cons c t => simp only [jsonSnakeCase]; split <;> simp

theorem fullNameValid_ne_nil {s : Str} (h : fullNameValid s = true) : s ≠ [] := by
  intro e; subst e; simp [fullNameValid, fullNameValidAux] at h

/-- what `fmMarshalPaths` returns and under which condition -/
theorem fmMarshalPaths_some (ps ccs : List Str) (h : fmMarshalPaths ps = some ccs) :
    ccs = ps.map jsonCamelCase ∧ ∀ p ∈ ps, fullNameValid p = true ∧ jsonSnakeCase (jsonCamelCase p) = p := by
  induction ps generalizing ccs with
  | nil =>
    simp only [fmMarshalPaths, Option.some.injEq] at h
    subst h
    exact ⟨rfl, by intro p hp; cases hp⟩
  | cons s r ih =>
    simp only [fmMarshalPaths] at h
    split at h
    · cases h
    · next hv =>
      split at h
      · cases h
      · next hr =>
        cases hm : fmMarshalPaths r with
        | none => simp [hm] at h
        | some cr =>
          simp only [hm, Option.map_some, Option.some.injEq] at h
          obtain ⟨e1, e2⟩ := ih cr hm
          subst h
          refine ⟨by simp [e1], ?_⟩
          intro p hp
          rcases List.mem_cons.mp hp with e | e
          · subst e
            exact ⟨by simpa using hv, by simpa [eq_comm] using hr⟩
          · exact e2 p e

theorem fmMarshalPaths_of_all (ps : List Str)
    (h : ∀ p ∈ ps, fullNameValid p = true ∧ jsonSnakeCase (jsonCamelCase p) = p) :
    fmMarshalPaths ps = some (ps.map jsonCamelCase) := by
  induction ps with
  | nil => rfl
  | cons s r ih =>
    obtain ⟨hv, hr⟩ := h s List.mem_cons_self
    simp only [fmMarshalPaths]
    rw [if_neg (by simp [hv]), if_neg (by simp [hr]), ih (fun p hp => h p (List.mem_cons_of_mem _ hp))]
    rfl

theorem camel_chars_of_valid {p : Str} (hv : fullNameValid p = true) :
    ∀ c ∈ jsonCamelCase p, camelChar c = true :=
  camelAux_chars false p (nameChar_of_valid true p hv)

theorem fmUnmarshalPaths_camel (ps : List Str)
    (h : ∀ p ∈ ps, fullNameValid p = true ∧ jsonSnakeCase (jsonCamelCase p) = p) :
    fmUnmarshalPaths (ps.map jsonCamelCase) = some ps := by
  induction ps with
  | nil => rfl
  | cons s r ih =>
    obtain ⟨hv, hr⟩ := h s List.mem_cons_self
    simp only [List.map_cons, fmUnmarshalPaths]
    have hnu : ¬ '_' ∈ jsonCamelCase s := fun hm => (camelChar_props (camel_chars_of_valid hv _ hm)).1 rfl
    rw [hr, if_neg (by simp [hnu, hv]), ih (fun p hp => h p (List.mem_cons_of_mem _ hp))]
    rfl

end WktJson
