import PbVerif.Lemmas.MSetLazy
/-
C47 helper lemmas, part 4: the slice expression `message[nn:]` of `ConsumeFieldValue` (merge of a
further message field when wantLen is set) never panics: the `panic` result of the model is
unreachable on inputs shorter than 2^64 bytes.
-/
namespace MSet
open Spec

theorem decVarintAux_take : ∀ (b : Bytes) (i v n : Nat), decVarintAux i b = .ok (v, n) →
    ∀ j, n ≤ j → decVarintAux i (b.take j) = .ok (v, n)
  | [], i, v, n, h, _, _ => by simp [decVarintAux] at h
  | x :: r, i, v, n, h, j, hj => by
    have hn := (decVarintAux_len (x :: r) i v n h).1
    obtain ⟨j', rfl⟩ : ∃ j', j = j' + 1 := ⟨j - 1, by omega⟩
    simp only [List.take_succ_cons]
    unfold decVarintAux at h ⊢
    split at h
    · rename_i hi; simp only [hi, if_true]; exact h
    · rename_i hi
      simp only [hi, if_false]
      split at h
      · rename_i hx; simp only [hx, if_true]; exact h
      · rename_i hx
        simp only [hx, if_false]
        split at h
        · rename_i v' n' heq
          simp only [Except.ok.injEq, Prod.mk.injEq] at h
          rw [decVarintAux_take r (i + 1) v' n' heq j' (by omega)]
          simp only [Except.ok.injEq, Prod.mk.injEq]; exact h
        · simp at h

theorem decVarint_take {b : Bytes} {v n : Nat} (h : decVarint b = .ok (v, n)) {j : Nat} (hj : n ≤ j) :
    decVarint (b.take j) = .ok (v, n) := decVarintAux_take b 0 v n h j hj

/-- the raw bytes `b[:n]` of a length-delimited field start with its length varint, followed by
exactly the payload -/
theorem decBytes_take {b m : Bytes} {k : Nat} (h : decBytes b = .ok (m, k)) :
    ∃ nn, decVarint (b.take k) = .ok (m.length, nn) ∧ (b.take k).drop nn = m ∧ m.length ≤ k := by
  unfold decBytes at h
  split at h
  · simp at h
  · rename_i L nn heq
    split at h
    · simp at h
    · rename_i hL
      simp only [Except.ok.injEq, Prod.mk.injEq] at h
      obtain ⟨rfl, rfl⟩ := h
      have hlen : ((b.drop nn).take L).length = L := by
        simp only [List.length_take, List.length_drop] at hL ⊢; omega
      refine ⟨nn, ?_, ?_, by omega⟩
      · rw [hlen]; exact decVarint_take heq (by omega)
      · rw [List.drop_take]; congr 1; omega

/-- invariant of the loop when wantLen is set: `message`, when set, is a varint followed by exactly
that many bytes, which are no more than the part of the input consumed so far -/
def MsgInv (w : Bool) (msg : Option Bytes) (bound : Nat) : Prop :=
  w = true → ∀ m0, msg = some m0 →
    ∃ nn, decVarint m0 = .ok ((m0.drop nn).length, nn) ∧ (m0.drop nn).length ≤ bound

theorem MsgInv.mono {w : Bool} {msg : Option Bytes} {a b : Nat} (h : MsgInv w msg a) (hab : a ≤ b) :
    MsgInv w msg b := by
  intro hw m0 hm
  obtain ⟨nn, h1, h2⟩ := h hw m0 hm
  exact ⟨nn, h1, by omega⟩

theorem addMsg_inv {w : Bool} {msg : Option Bytes} {b1 m : Bytes} {k bound : Nat}
    (hd : decBytes b1 = .ok (m, k)) (hi : MsgInv w msg bound) (hb : bound + k < 2 ^ 64) :
    ∃ m', addMsg w msg (b1.take k) m = .ok m' ∧ MsgInv w (some m') (bound + k) := by
  obtain ⟨nn, hv, hdrop, hmk⟩ := decBytes_take hd
  cases w with
  | false =>
    cases msg with
    | none => exact ⟨m, by simp [addMsg], by intro hw; cases hw⟩
    | some m0 => exact ⟨m0 ++ m, by simp [addMsg], by intro hw; cases hw⟩
  | true =>
    cases msg with
    | none =>
      refine ⟨b1.take k, by simp [addMsg], ?_⟩
      intro _ m0 hm0
      simp only [Option.some.injEq] at hm0; subst hm0
      exact ⟨nn, by rw [hdrop]; exact hv, by rw [hdrop]; omega⟩
    | some m0 =>
      obtain ⟨n0, h0, hlen⟩ := hi rfl m0 rfl
      refine ⟨encVarint ((m0.drop n0).length + m.length) ++ m0.drop n0 ++ m, by simp [addMsg, h0], ?_⟩
      intro _ m1 hm1
      simp only [Option.some.injEq] at hm1; subst hm1
      have hX : (m0.drop n0).length + m.length < 2 ^ 64 := by omega
      refine ⟨(encVarint ((m0.drop n0).length + m.length)).length, ?_, ?_⟩
      · rw [List.append_assoc, List.drop_left' rfl, List.length_append]; exact decVarint_enc hX _
      · rw [List.append_assoc, List.drop_left' rfl]
        simp only [List.length_append]; omega

/-- the value returned at the end marker when wantLen is set is read back by `ConsumeBytes` -/
theorem decBytes_finMsg_inv {msg : Option Bytes} {bound : Nat} (hi : MsgInv true msg bound) :
    ∃ p k, decBytes (finMsg true msg) = .ok (p, k) := by
  have h0 : ∃ p k, decBytes (encVarint 0) = .ok (p, k) := by
    have := decBytes_enc (p := []) (by simp) []
    simp only [encBytes, List.append_nil, List.length_nil] at this
    exact ⟨_, _, this⟩
  cases msg with
  | none => simpa [finMsg] using h0
  | some m0 =>
    by_cases hl : m0.length = 0
    · simpa [finMsg, hl] using h0
    · obtain ⟨nn, hv, _⟩ := hi rfl m0 rfl
      simp only [finMsg, hl, and_false, if_false]
      unfold decBytes
      rw [hv]
      simp

theorem itemLoop_ne_panic (w : Bool) (ilen N : Nat) (hN : N < 2 ^ 64) :
    ∀ (fuel : Nat) (b : Bytes) (t : Nat) (msg : Option Bytes),
    b.length ≤ N → MsgInv w msg (N - b.length) → itemLoop w ilen fuel b t msg ≠ .error .panic
  | 0, _, _, _, _, _ => by simp [itemLoop]
  | fuel + 1, b, t, msg, hb, hi => by
    unfold itemLoop
    split
    · simp
    · rename_i num wtyp n hn
      have hl := decTag_len hn
      simp only
      split
      · simp
      · split
        · split
          · simp
          · rename_i v k hv
            have := decVarint_len hv
            simp only [List.length_drop] at this
            split
            · simp
            · exact itemLoop_ne_panic w ilen N hN fuel _ _ _ (by simp only [List.length_drop]; omega)
                (hi.mono (by simp only [List.length_drop]; omega))
        · split
          · split
            · simp
            · rename_i m k hm
              have hk := decBytes_len hm
              simp only [List.length_drop] at hk
              obtain ⟨m', ha, hi'⟩ := addMsg_inv hm hi (by omega)
              simp only [ha]
              exact itemLoop_ne_panic w ilen N hN fuel _ _ _ (by simp only [List.length_drop]; omega)
                (hi'.mono (by simp only [List.length_drop]; omega))
          · split
            · simp
            · rename_i k hk
              have := consumeFieldValue_le' hk
              simp only [List.length_drop] at this
              exact itemLoop_ne_panic w ilen N hN fuel _ _ _ (by simp only [List.length_drop]; omega)
                (hi.mono (by simp only [List.length_drop]; omega))

theorem consumeItem_ne_panic (w : Bool) (b : Bytes) (h : b.length < 2 ^ 64) : consumeItem w b ≠ .error .panic :=
  itemLoop_ne_panic w _ b.length h _ b 0 none (Nat.le_refl _) (by intro _ m0 hm; cases hm)

theorem itemsLoop_ne_panic (w : Bool) : ∀ (fuel : Nat) (b : Bytes), b.length < 2 ^ 64 →
    itemsLoop w fuel b ≠ .error .panic
  | 0, _, _ => by simp [itemsLoop]
  | fuel + 1, b, h => by
    unfold itemsLoop
    split
    · simp
    · split
      · simp
      · rename_i num wtyp n hn
        simp only
        split
        · split
          · simp
          · exact itemsLoop_ne_panic w fuel _ (by simp only [List.length_drop]; omega)
        · split
          · rename_i e he
            intro hc
            simp only [Except.error.injEq] at hc
            subst hc
            exact consumeItem_ne_panic w _ (by simp only [List.length_drop]; omega) he
          · have ih := itemsLoop_ne_panic w fuel (List.drop ‹Nat› (List.drop n b)) (by simp only [List.length_drop]; omega)
            split
            · exact ih
            · split
              · rename_i e he
                intro hc
                simp only [Except.error.injEq] at hc
                subst hc
                exact ih he
              · simp

theorem unmarshalItems_ne_panic (w : Bool) (b : Bytes) (h : b.length < 2 ^ 64) :
    unmarshalItems w b ≠ .error .panic := itemsLoop_ne_panic w _ b h

/-! ### every value `Unmarshal(b, true, fn)` delivers is read back by `ConsumeBytes` -/

theorem itemLoop_result (ilen N : Nat) (hN : N < 2 ^ 64) :
    ∀ (fuel : Nat) (b : Bytes) (t : Nat) (msg : Option Bytes),
    b.length ≤ N → MsgInv true msg (N - b.length) →
    ∀ t' v n, itemLoop true ilen fuel b t msg = .ok (t', v, n) → ∃ p k, decBytes v = .ok (p, k)
  | 0, _, _, _, _, _, _, _, _, h => by simp [itemLoop] at h
  | fuel + 1, b, t, msg, hb, hi, t', v, n', h => by
    unfold itemLoop at h
    split at h
    · simp at h
    · rename_i num wtyp n hn
      have hl := decTag_len hn
      simp only at h
      split at h
      · simp only [Except.ok.injEq, Prod.mk.injEq] at h
        obtain ⟨_, rfl, _⟩ := h
        exact decBytes_finMsg_inv hi
      · split at h
        · split at h
          · simp at h
          · rename_i v' k hv
            have := decVarint_len hv
            simp only [List.length_drop] at this
            split at h
            · simp at h
            · exact itemLoop_result ilen N hN fuel _ _ _ (by simp only [List.length_drop]; omega)
                (hi.mono (by simp only [List.length_drop]; omega)) _ _ _ h
        · split at h
          · split at h
            · simp at h
            · rename_i m k hm
              have hk := decBytes_len hm
              simp only [List.length_drop] at hk
              obtain ⟨m', ha, hi'⟩ := addMsg_inv hm hi (by omega)
              simp only [ha] at h
              exact itemLoop_result ilen N hN fuel _ _ _ (by simp only [List.length_drop]; omega)
                (hi'.mono (by simp only [List.length_drop]; omega)) _ _ _ h
          · split at h
            · simp at h
            · rename_i k hk
              have := consumeFieldValue_le' hk
              simp only [List.length_drop] at this
              exact itemLoop_result ilen N hN fuel _ _ _ (by simp only [List.length_drop]; omega)
                (hi.mono (by simp only [List.length_drop]; omega)) _ _ _ h

theorem consumeItem_result {b : Bytes} (hb : b.length < 2 ^ 64) {t : Nat} {v : Bytes} {n : Nat}
    (h : consumeItem true b = .ok (t, v, n)) : ∃ p k, decBytes v = .ok (p, k) :=
  itemLoop_result _ b.length hb _ b 0 none (Nat.le_refl _) (by intro _ m0 hm; cases hm) _ _ _ h

theorem itemsLoop_result : ∀ (fuel : Nat) (b : Bytes), b.length < 2 ^ 64 →
    ∀ cs, itemsLoop true fuel b = .ok cs → ∀ x ∈ cs, ∃ p k, decBytes x.2 = .ok (p, k)
  | 0, _, _, _, h => by simp [itemsLoop] at h
  | fuel + 1, b, hb, cs, h => by
    unfold itemsLoop at h
    split at h
    · simp only [Except.ok.injEq] at h; subst h; simp
    · split at h
      · simp at h
      · rename_i num wtyp n hn
        simp only at h
        split at h
        · split at h
          · simp at h
          · exact itemsLoop_result fuel _ (by simp only [List.length_drop]; omega) cs h
        · split at h
          · simp at h
          · rename_i typeID value k hc
            have hv := consumeItem_result (by simp only [List.length_drop]; omega) hc
            split at h
            · exact itemsLoop_result fuel _ (by simp only [List.length_drop]; omega) cs h
            · split at h
              · simp at h
              · rename_i r hr
                simp only [Except.ok.injEq] at h; subst h
                intro x hx
                simp only [List.mem_cons] at hx
                rcases hx with rfl | hx
                · exact hv
                · exact itemsLoop_result fuel _ (by simp only [List.length_drop]; omega) r hr x hx

theorem applyItem_paths (known : Nat → Bool) (s : Content) (t : Nat) {v p : Bytes} {k : Nat}
    (h : decBytes v = .ok (p, k)) : applyItem known true s t v = applyItem known false s t v := by
  simp only [applyItem, h]

theorem applyItems_paths (known : Nat → Bool) : ∀ (cs : List (Nat × Bytes)) (s : Content),
    (∀ x ∈ cs, ∃ p k, decBytes x.2 = .ok (p, k)) →
    applyItems known true s cs = applyItems known false s cs
  | [], _, _ => rfl
  | (t, v) :: r, s, h => by
    obtain ⟨p, k, hv⟩ := h (t, v) (by simp)
    simp only [applyItems, applyItem_paths known s t hv]
    cases applyItem known false s t v with
    | error e => rfl
    | ok s' => exact applyItems_paths known r s' (fun x hx => h x (by simp [hx]))

/-- fast path = reflection path, for every input -/
theorem decodeSet_paths (known : Nat → Bool) (b : Bytes) (hb : b.length < 2 ^ 64) :
    decodeSet known true b = decodeSet known false b := by
  unfold decodeSet
  cases hu : unmarshalItems true b with
  | error e => rfl
  | ok cs => exact applyItems_paths known cs _ (itemsLoop_result _ b hb cs hu)

end MSet
