import PbVerif.Model.JsonText
/-
Algebra of the sorted field lists of `Pb.Msg` used by the round-trip proofs: `get?` after `set`/`erase`,
sortedness, extensionality of sorted lists, and the normal form `normFields`.
-/
namespace JT
open Pb

/-- field numbers strictly ascending, all ≥ `lb` -/
def SortedFrom (lb : Nat) : Fields → Prop
  | .nil => True
  | .cons n _ tl => lb ≤ n ∧ SortedFrom (n + 1) tl

theorem SortedFrom.mono {lb lb' : Nat} (h : lb' ≤ lb) : ∀ {fs : Fields}, SortedFrom lb fs → SortedFrom lb' fs
  | .nil, _ => trivial
  | .cons _ _ _, ⟨h1, h2⟩ => ⟨Nat.le_trans h h1, h2⟩

theorem get?_of_lt {lb k : Nat} (hk : k < lb) : ∀ {fs : Fields}, SortedFrom lb fs → fs.get? k = none
  | .nil, _ => rfl
  | .cons n _ tl, ⟨h1, h2⟩ => by
    simp only [Fields.get?]
    have : n ≠ k := by omega
    simp only [this, if_false]
    exact get?_of_lt (by omega) h2

theorem get?_set (k : Nat) (fv : FVal) (k' : Nat) : ∀ (fs : Fields),
    (fs.set k fv).get? k' = if k = k' then some fv else fs.get? k'
  | .nil => by
    simp only [Fields.set, Fields.get?]
  | .cons n x tl => by
    simp only [Fields.set]
    by_cases h1 : k < n
    · simp only [h1, if_true, Fields.get?]
    · simp only [h1, if_false]
      by_cases h2 : k = n
      · subst h2
        simp only [if_true, Fields.get?]
        by_cases h3 : k = k'
        · simp [h3]
        · simp [h3]
      · simp only [h2, if_false, Fields.get?]
        by_cases h3 : n = k'
        · subst h3
          simp [h2]
        · simp only [h3, if_false]
          exact get?_set k fv k' tl

theorem sortedFrom_set {lb k : Nat} (fv : FVal) (hk : lb ≤ k) : ∀ {fs : Fields}, SortedFrom lb fs →
    SortedFrom lb (fs.set k fv)
  | .nil, _ => ⟨hk, trivial⟩
  | .cons n x tl, ⟨h1, h2⟩ => by
    simp only [Fields.set]
    by_cases a : k < n
    · simp only [a, if_true]
      exact ⟨hk, by omega, h2⟩
    · simp only [a, if_false]
      by_cases b : k = n
      · subst b
        simp only [if_true]
        exact ⟨h1, h2⟩
      · simp only [b, if_false]
        exact ⟨h1, sortedFrom_set fv (by omega) h2⟩

/-- sorted field lists are determined by their lookup function -/
theorem sorted_ext : ∀ {a b : Fields} {la lb : Nat}, SortedFrom la a → SortedFrom lb b →
    (∀ k, a.get? k = b.get? k) → a = b
  | .nil, .nil, _, _, _, _, _ => rfl
  | .nil, .cons n x tl, _, _, _, _, h => by
    have := h n
    simp [Fields.get?] at this
  | .cons n x tl, .nil, _, _, _, _, h => by
    have := h n
    simp [Fields.get?] at this
  | .cons n x tl, .cons n' x' tl', la, lb, ⟨h1, h2⟩, ⟨h1', h2'⟩, h => by
    have hn : n = n' := by
      rcases Nat.lt_trichotomy n n' with hlt | heq | hgt
      · have := h n
        simp only [Fields.get?, if_true] at this
        have hne : n' ≠ n := by omega
        simp only [hne, if_false] at this
        rw [get?_of_lt (by omega) h2'] at this
        cases this
      · exact heq
      · have := h n'
        simp only [Fields.get?, if_true] at this
        have hne : n ≠ n' := by omega
        simp only [hne, if_false] at this
        rw [get?_of_lt (by omega) h2] at this
        cases this
    subst hn
    have hx : x = x' := by
      have := h n
      simpa [Fields.get?] using this
    subst hx
    have htl : tl = tl' := by
      apply sorted_ext h2 h2'
      intro k
      by_cases hk : n = k
      · subst hk
        rw [get?_of_lt (by omega) h2, get?_of_lt (by omega) h2']
      · have := h k
        simpa [Fields.get?, hk] using this
    rw [htl]

theorem erase_of_none (k : Nat) : ∀ (fs : Fields), fs.get? k = none → fs.erase k = fs
  | .nil, _ => rfl
  | .cons n x tl, h => by
    simp only [Fields.get?] at h
    by_cases hn : n = k
    · simp [hn] at h
    · simp only [hn, if_false] at h
      simp only [Fields.erase, hn, if_false]
      rw [erase_of_none k tl h]

/-- nothing is cleared when no other populated field belongs to the oneof -/
theorem clearOneof_id_aux (d : MsgD) (o keep : Nat) : ∀ (lb : Nat) (fs : Fields), SortedFrom lb fs →
    (∀ n fv, fs.get? n = some fv → n ≠ keep → ∀ f, d.find n = some f → f.oneof ≠ some o) →
    Fields.clearOneof d o keep fs = fs
  | _, .nil, _, _ => rfl
  | lb, .cons n x tl, ⟨h1, h2⟩, hall => by
    simp only [Fields.clearOneof]
    have htl : Fields.clearOneof d o keep tl = tl := by
      apply clearOneof_id_aux d o keep (n + 1) tl h2
      intro k fv hk hne f hf
      apply hall k fv _ hne f hf
      simp only [Fields.get?]
      have : n ≠ k := by
        intro e
        subst e
        rw [get?_of_lt (by omega) h2] at hk
        cases hk
      simp [this, hk]
    rw [htl]
    cases hf : d.find n with
    | none => rfl
    | some f =>
      simp only
      by_cases hkeep : n = keep
      · simp [hkeep]
      · have := hall n x (by simp [Fields.get?]) hkeep f hf
        simp [this]

theorem clearOneof_id (d : MsgD) (o keep : Nat) (fs : Fields)
    (hall : ∀ n fv, fs.get? n = some fv → n ≠ keep → ∀ f, d.find n = some f → f.oneof ≠ some o)
    (hs : SortedFrom 0 fs) : Fields.clearOneof d o keep fs = fs :=
  clearOneof_id_aux d o keep 0 fs hs hall

theorem appendList_nil (fs : Fields) (num : Nat) : appendList fs num .nil = fs := by
  simp [appendList, Vals.isNil]

theorem appendList_fresh (fs : Fields) (num : Nat) (vs : Vals) (hn : vs.isNil = false) (hg : fs.get? num = none) :
    appendList fs num vs = fs.set num (.many vs) := by
  simp [appendList, hn, hg]

/-! ### the normal form of a field list -/

theorem get?_normFields (X : SchemaX) (d : MsgX) (k : Nat) : ∀ (fs : Fields),
    (normFields X d fs).get? k =
      match d.find k, fs.get? k with
      | some fx, some fv => some (normFVal X fx fv)
      | _, _ => none
  | .nil => by
    simp only [normFields, Fields.get?]
    cases d.find k <;> rfl
  | .cons n x tl => by
    simp only [normFields]
    by_cases hn : n = k
    · subst hn
      cases hf : d.find n with
      | none =>
        simp only [Fields.get?, if_true]
        rw [get?_normFields X d n tl, hf]
      | some fx => simp [Fields.get?]
    · have ih := get?_normFields X d k tl
      cases hf : d.find n with
      | none =>
        simp only [Fields.get?, hn, if_false]
        exact ih
      | some fx =>
        simp only [Fields.get?, hn, if_false]
        exact ih

theorem sortedFrom_normFields (X : SchemaX) (d : MsgX) : ∀ {lb : Nat} {fs : Fields}, SortedFrom lb fs →
    SortedFrom lb (normFields X d fs)
  | _, .nil, _ => trivial
  | lb, .cons n x tl, ⟨h1, h2⟩ => by
    simp only [normFields]
    cases d.find n with
    | none => exact (sortedFrom_normFields X d h2).mono (by omega)
    | some fx => exact ⟨h1, sortedFrom_normFields X d h2⟩

theorem pb_find (d : MsgX) (n : Nat) : d.pb.find n = (d.find n).map (·.f) := by
  unfold MsgX.pb MsgD.find MsgX.find
  induction d.fields with
  | nil => rfl
  | cons a tl ih =>
    simp only [List.map_cons, List.find?_cons]
    cases h : (a.f.num == n) <;> simp [h, ih]

end JT
