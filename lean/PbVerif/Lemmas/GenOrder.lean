import PbVerif.Model.GenOrder

/-! Helper lemmas for C40: the string order is a strict total order, `Itoa` is injective, the renaming loop
finds the first unused candidate within `used.length + 1` steps, and the invariants of `qualify`. -/

namespace PbVerif.GenOrder

/-! ### Go's string order -/

theorem strLt_irrefl (a : Str) : strLt a a = false := by
  induction a with
  | nil => rfl
  | cons x xs ih => simp [strLt, ih]

theorem strLt_asymm {a b : Str} (h : strLt a b = true) : strLt b a = false := by
  induction a generalizing b with
  | nil => cases b <;> simp_all [strLt]
  | cons x xs ih =>
    cases b with
    | nil => simp_all [strLt]
    | cons y ys =>
      simp only [strLt, Bool.or_eq_true, decide_eq_true_eq, Bool.and_eq_true, beq_iff_eq] at h
      simp only [strLt, Bool.or_eq_false_iff, decide_eq_false_iff_not, Bool.and_eq_false_imp, beq_iff_eq]
      rcases h with h | ⟨h1, h2⟩
      · exact ⟨by omega, fun e => by omega⟩
      · exact ⟨by omega, fun _ => ih h2⟩

theorem strLt_trans {a b c : Str} (h1 : strLt a b = true) (h2 : strLt b c = true) : strLt a c = true := by
  induction a generalizing b c with
  | nil =>
    cases b with
    | nil => simp [strLt] at h1
    | cons y ys => cases c <;> simp_all [strLt]
  | cons x xs ih =>
    cases b with
    | nil => simp [strLt] at h1
    | cons y ys =>
      cases c with
      | nil => simp [strLt] at h2
      | cons z zs =>
        simp only [strLt, Bool.or_eq_true, decide_eq_true_eq, Bool.and_eq_true, beq_iff_eq] at h1 h2 ⊢
        rcases h1 with h1 | ⟨e1, h1⟩ <;> rcases h2 with h2 | ⟨e2, h2⟩
        · exact Or.inl (by omega)
        · exact Or.inl (by omega)
        · exact Or.inl (by omega)
        · exact Or.inr ⟨by omega, ih h1 h2⟩

theorem strLt_connex {a b : Str} (h1 : strLt a b = false) (h2 : strLt b a = false) : a = b := by
  induction a generalizing b with
  | nil => cases b <;> simp_all [strLt]
  | cons x xs ih =>
    cases b with
    | nil => simp_all [strLt]
    | cons y ys =>
      simp only [strLt, Bool.or_eq_false_iff, decide_eq_false_iff_not, Bool.and_eq_false_imp, beq_iff_eq] at h1 h2
      have e : x = y := by omega
      subst e
      rw [ih (h1.2 rfl) (h2.2 rfl)]

theorem strLe_total (a b : Str) : (strLe a b || strLe b a) = true := by
  unfold strLe
  cases h : strLt b a
  · simp
  · simp [strLt_asymm h]

theorem strLe_trans (a b c : Str) (h1 : strLe a b = true) (h2 : strLe b c = true) : strLe a c = true := by
  unfold strLe at *
  cases h : strLt c a
  · rfl
  · -- c < a, ¬ b < a, ¬ c < b: then a ≤ b ≤ c < a
    simp only [Bool.not_eq_true', ] at h1 h2
    cases hab : strLt a b
    · have := strLt_connex hab h1
      subst this
      rw [h] at h2; cases h2
    · have := strLt_trans h hab
      rw [this] at h2; cases h2

theorem strLe_antisymm {a b : Str} (h1 : strLe a b = true) (h2 : strLe b a = true) : a = b := by
  unfold strLe at *
  simp only [Bool.not_eq_true'] at h1 h2
  exact strLt_connex h2 h1

/-! ### `strconv.Itoa` is injective -/

def ofDigitsLE : List Nat → Nat
  | [] => 0
  | d :: ds => d + 10 * ofDigitsLE ds

theorem ofDigitsLE_digitsFuel : ∀ (fuel n : Nat), n < fuel → ofDigitsLE (digitsFuel fuel n) = n := by
  intro fuel
  induction fuel with
  | zero => intro n h; omega
  | succ fuel ih =>
    intro n h
    unfold digitsFuel
    split
    · simp [ofDigitsLE]
    · simp only [ofDigitsLE]
      rw [ih (n / 10) (by omega)]
      omega

theorem ofDigitsLE_digitsLE (n : Nat) : ofDigitsLE (digitsLE n) = n :=
  ofDigitsLE_digitsFuel (n + 1) n (by omega)

theorem digitsLE_ne_nil (n : Nat) : digitsLE n ≠ [] := by
  unfold digitsLE digitsFuel; split <;> simp

theorem itoa_injective {a b : Nat} (h : itoa a = itoa b) : a = b := by
  unfold itoa at h
  have h1 := List.reverse_inj.1 h
  have h2 : digitsLE a = digitsLE b :=
    (List.map_inj_right (fun x y (e : x + 48 = y + 48) => by omega)).1 h1
  have := congrArg ofDigitsLE h2
  simpa [ofDigitsLE_digitsLE] using this

theorem itoa_ne_nil (n : Nat) : itoa n ≠ [] := by
  unfold itoa
  simp [digitsLE_ne_nil]

theorem cand_injective (orig : Str) {i j : Nat} (h : cand orig i = cand orig j) : i = j := by
  cases i with
  | zero =>
    cases j with
    | zero => rfl
    | succ j =>
      simp only [cand] at h
      have : (orig ++ itoa (j + 1)).length = orig.length := by rw [← h]
      have hne := itoa_ne_nil (j + 1)
      cases hi : itoa (j + 1) with
      | nil => exact absurd hi hne
      | cons x xs => rw [hi] at this; simp at this
  | succ i =>
    cases j with
    | zero =>
      simp only [cand] at h
      have : (orig ++ itoa (i + 1)).length = orig.length := by rw [h]
      have hne := itoa_ne_nil (i + 1)
      cases hi : itoa (i + 1) with
      | nil => exact absurd hi hne
      | cons x xs => rw [hi] at this; simp at this
    | succ j =>
      simp only [cand] at h
      exact itoa_injective (List.append_cancel_left h)

/-! ### the renaming loop -/

/-- pigeonhole: an injective sequence leaves a list of length `n` within its first `n + 1` members -/
theorem exists_not_mem_of_injective {α : Type} [DecidableEq α] (f : Nat → α) (hf : ∀ i j, f i = f j → i = j) :
    ∀ (l : List α), ∃ i, i ≤ l.length ∧ f i ∉ l := by
  intro l
  induction h : l.length generalizing l f with
  | zero =>
    have : l = [] := List.eq_nil_of_length_eq_zero h
    subst this
    exact ⟨0, Nat.le_refl _, by simp⟩
  | succ n ih =>
    by_cases h0 : f 0 ∈ l
    · have hl : (l.erase (f 0)).length = n := by
        rw [List.length_erase_of_mem h0]; omega
      obtain ⟨i, hi, hni⟩ := ih (fun k => f (k + 1)) (fun a b e => by have := hf _ _ e; omega) (l.erase (f 0)) hl
      refine ⟨i + 1, by omega, fun hm => hni ?_⟩
      have hne : f (i + 1) ≠ f 0 := fun e => by have := hf _ _ e; omega
      exact (List.mem_erase_of_ne hne).2 hm
    · exact ⟨0, by omega, h0⟩

theorem freshFrom_spec (used : List Str) (orig : Str) :
    ∀ (fuel i k : Nat), k < fuel → cand orig (i + k) ∉ used → (∀ j, j < k → cand orig (i + j) ∈ used) →
      freshFrom used orig fuel i = some (cand orig (i + k)) := by
  intro fuel
  induction fuel with
  | zero => intro i k hk; omega
  | succ fuel ih =>
    intro i k hk hnot hall
    unfold freshFrom
    cases k with
    | zero => simp at hnot ⊢; simp [hnot]
    | succ k =>
      have h0 : cand orig i ∈ used := by simpa using hall 0 (by omega)
      simp only [List.contains_iff_mem, h0, if_true]
      have := ih (i + 1) k (by omega) (by simpa [Nat.add_assoc, Nat.add_comm 1 k] using hnot)
        (fun j hj => by have := hall (j + 1) (by omega); simpa [Nat.add_assoc, Nat.add_comm 1 j] using this)
      simpa [Nat.add_assoc, Nat.add_comm 1 k] using this

/-- the first index whose candidate is unused exists below `used.length + 1` -/
theorem exists_first_free (used : List Str) (orig : Str) :
    ∃ k, k ≤ used.length ∧ cand orig k ∉ used ∧ ∀ j, j < k → cand orig j ∈ used := by
  obtain ⟨i, hi, hni⟩ := exists_not_mem_of_injective (cand orig) (fun _ _ e => cand_injective orig e) used
  -- least such index
  have : ∀ n, (∃ i, i ≤ n ∧ cand orig i ∉ used) →
      ∃ k, k ≤ n ∧ cand orig k ∉ used ∧ ∀ j, j < k → cand orig j ∈ used := by
    intro n
    induction n with
    | zero =>
      rintro ⟨i, hi, h⟩
      have : i = 0 := by omega
      subst this
      exact ⟨0, Nat.le_refl _, h, fun j hj => by omega⟩
    | succ n ih =>
      rintro ⟨i, hi, h⟩
      by_cases hex : ∃ i, i ≤ n ∧ cand orig i ∉ used
      · obtain ⟨k, hk, h1, h2⟩ := ih hex
        exact ⟨k, by omega, h1, h2⟩
      · have hi' : i = n + 1 := by
          by_cases hle : i ≤ n
          · exact absurd ⟨i, hle, h⟩ hex
          · omega
        subst hi'
        refine ⟨n + 1, Nat.le_refl _, h, fun j hj => ?_⟩
        by_cases hm : cand orig j ∈ used
        · exact hm
        · exact absurd ⟨j, by omega, hm⟩ hex
  exact this used.length ⟨i, hi, hni⟩

theorem freshName_eq_first_free (used : List Str) (orig : Str) :
    ∃ k, freshName used orig = some (cand orig k) ∧ cand orig k ∉ used ∧ ∀ j, j < k → cand orig j ∈ used := by
  obtain ⟨k, hk, h1, h2⟩ := exists_first_free used orig
  refine ⟨k, ?_, h1, h2⟩
  unfold freshName
  have := freshFrom_spec used orig (used.length + 1) 0 k (by omega) (by simpa using h1)
    (fun j hj => by simpa using h2 j hj)
  simpa using this

/-! ### association lists -/

theorem lookup_eq_none_iff (names : List (Str × Str)) (p : Str) :
    lookup names p = none ↔ p ∉ names.map Prod.fst := by
  unfold lookup
  cases h : names.find? (fun e => e.1 == p) with
  | none =>
    simp only [true_iff]
    intro hm
    obtain ⟨e, he, rfl⟩ := List.mem_map.1 hm
    have := List.find?_eq_none.1 h e he
    simp at this
  | some e =>
    simp only [reduceCtorEq, false_iff, Decidable.not_not]
    have h1 := List.mem_of_find?_eq_some h
    have h2 := List.find?_some h
    simp only [beq_iff_eq] at h2
    exact List.mem_map.2 ⟨e, h1, h2⟩

theorem lookup_mem {names : List (Str × Str)} {p n : Str} (h : lookup names p = some n) : (p, n) ∈ names := by
  unfold lookup at h
  cases hf : names.find? (fun e => e.1 == p) with
  | none => rw [hf] at h; cases h
  | some e =>
    rw [hf] at h
    have h1 := List.mem_of_find?_eq_some hf
    have h2 := List.find?_some hf
    simp only [beq_iff_eq] at h2
    cases h
    rcases e with ⟨a, b⟩
    simp only at h2
    subst h2
    exact h1

/-- two members of a list on which `f` is injective-by-`Pairwise` are equal when `f` agrees -/
theorem eq_of_mem_of_pairwise_ne {α β : Type} (f : α → β) :
    ∀ {l : List α}, l.Pairwise (fun a b => f a ≠ f b) → ∀ {a b}, a ∈ l → b ∈ l → f a = f b → a = b := by
  intro l hp
  induction hp with
  | nil => intro a b ha; cases ha
  | cons hx _ ih =>
    intro a b ha hb e
    rcases List.mem_cons.1 ha with rfl | ha' <;> rcases List.mem_cons.1 hb with rfl | hb'
    · rfl
    · exact absurd e (hx _ hb')
    · exact absurd e.symm (hx _ ha')
    · exact ih ha' hb' e

end PbVerif.GenOrder
