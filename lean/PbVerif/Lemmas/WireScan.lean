import PbVerif.Lemmas.WireBridge
/-
Properties of the specification field scanner (`Spec.fieldValueLen` / `Spec.groupLen`,
the model of `consumeFieldValueD` in wire.go): the fuel `2*|b|+2` always suffices and no
result ever exceeds the input length.
-/
open WireBridge
namespace Spec

theorem decTag_bounds (b : List Byte) (num typ n : Nat) (h : decTag b = .ok (num, typ, n)) :
    1 ≤ n ∧ n ≤ b.length ∧ 1 ≤ num ∧ num ≤ 2147483647 ∧ typ < 8 := by
  unfold decTag at h
  cases hd : decVarint b with
  | error e => simp [hd] at h
  | ok p =>
    obtain ⟨w, k⟩ := p
    have := decVarint_bounds b w k hd
    simp only [hd] at h
    split at h
    · simp at h
    · split at h
      · simp at h
      · simp only [Except.ok.injEq, Prod.mk.injEq] at h
        obtain ⟨rfl, rfl, rfl⟩ := h
        omega

theorem decBytes_bounds (b : List Byte) (p : List Byte) (n : Nat) (h : decBytes b = .ok (p, n)) :
    1 ≤ n ∧ n ≤ b.length ∧ p.length < n := by
  unfold decBytes at h
  cases hd : decVarint b with
  | error e => simp [hd] at h
  | ok q =>
    obtain ⟨m, k⟩ := q
    have := decVarint_bounds b m k hd
    simp only [hd] at h
    split at h
    · simp at h
    · simp only [Except.ok.injEq, Prod.mk.injEq] at h
      obtain ⟨rfl, rfl⟩ := h
      simp only [List.length_drop, List.length_take] at *
      omega

theorem decFixed_bounds (k : Nat) (b : List Byte) (v n : Nat) (h : decFixed k b = .ok (v, n)) :
    n = k ∧ n ≤ b.length := by
  unfold decFixed at h
  split at h
  · simp at h
  · simp only [Except.ok.injEq, Prod.mk.injEq] at h
    omega

/-- fuel adequacy and no-overread for the field scanner, by induction on the fuel -/
theorem scan_props : ∀ (fuel : Nat),
    (∀ num typ b depth, 2 * b.length + 2 ≤ fuel →
      ∃ r, fieldValueLen fuel num typ b depth = some r ∧ ∀ n, r = .ok n → n ≤ b.length) ∧
    (∀ num b depth acc, 2 * b.length + 1 ≤ fuel →
      ∃ r, groupLen fuel num b depth acc = some r ∧ ∀ n, r = .ok n → acc < n ∧ n ≤ acc + b.length) := by
  intro fuel
  induction fuel with
  | zero => exact ⟨fun _ _ b _ h => by omega, fun _ b _ _ h => by omega⟩
  | succ f ih =>
    obtain ⟨ihF, ihG⟩ := ih
    constructor
    · intro num typ b depth hf
      unfold fieldValueLen
      split
      · cases hd : decVarint b with
        | error e => exact ⟨_, rfl, by simp [Except.map]⟩
        | ok p => exact ⟨_, rfl, by
            intro n hn; simp [Except.map] at hn; have := decVarint_bounds b p.1 p.2 hd; omega⟩
      · cases hd : decFixed 4 b with
        | error e => exact ⟨_, rfl, by simp [Except.map]⟩
        | ok p => exact ⟨_, rfl, by
            intro n hn; simp [Except.map] at hn; have := decFixed_bounds 4 b p.1 p.2 hd; omega⟩
      · cases hd : decFixed 8 b with
        | error e => exact ⟨_, rfl, by simp [Except.map]⟩
        | ok p => exact ⟨_, rfl, by
            intro n hn; simp [Except.map] at hn; have := decFixed_bounds 8 b p.1 p.2 hd; omega⟩
      · cases hd : decBytes b with
        | error e => exact ⟨_, rfl, by simp [Except.map]⟩
        | ok p => exact ⟨_, rfl, by
            intro n hn; simp [Except.map] at hn; have := decBytes_bounds b p.1 p.2 hd; omega⟩
      · split
        · exact ⟨_, rfl, by simp⟩
        · obtain ⟨r, hr, hb⟩ := ihG num b depth 0 (by omega)
          exact ⟨r, hr, fun n hn => by have := hb n hn; omega⟩
      · exact ⟨_, rfl, by simp⟩
      · exact ⟨_, rfl, by simp⟩
    · intro num b depth acc hf
      unfold groupLen
      cases hd : decTag b with
      | error e => exact ⟨_, rfl, by simp⟩
      | ok p =>
        obtain ⟨num2, typ2, n⟩ := p
        have hb := decTag_bounds b num2 typ2 n hd
        simp only
        split
        · split
          · exact ⟨_, rfl, by simp⟩
          · exact ⟨_, rfl, by intro k hk; simp at hk; omega⟩
        · have hlen : (b.drop n).length = b.length - n := by simp
          obtain ⟨r, hr, hrb⟩ := ihF num2 typ2 (b.drop n) (depth - 1) (by omega)
          rw [hr]
          cases r with
          | error e => exact ⟨_, rfl, by simp⟩
          | ok m =>
            have hm := hrb m rfl
            simp only
            have hlen2 : ((b.drop n).drop m).length = b.length - n - m := by simp; omega
            obtain ⟨r2, hr2, hr2b⟩ := ihG num ((b.drop n).drop m) depth (acc + n + m) (by omega)
            exact ⟨r2, hr2, fun k hk => by have := hr2b k hk; omega⟩

end Spec
