import PbVerif.Lemmas.Registry
/-
C33 helper lemmas, part 4: the `Types` registry (typesByName, extensionsByMessage, counters)
refines the list of accepted types.
-/
namespace Model.Registry

local macro "close_inv " h:ident : tactic =>
  `(tactic| first | exact ⟨rfl, $h⟩ | exact ⟨trivial, $h⟩ | exact ⟨by simp [Function.comp_def], $h⟩)

/-- the concrete maps of `Types` represent the abstract list of accepted types -/
structure TInv (r : Types) (a : List TypeD) : Prop where
  byName : r.typesByName = a.map (fun t => (t.full, t))
  exts : ∀ m, (alLookup m r.extensionsByMessage).getD [] = (Spec.extsOf a m).map (fun t => (t.number, t))
  numE : r.numEnums = (a.filter (fun t => t.kind = .enum)).length
  numM : r.numMessages = (a.filter (fun t => t.kind = .message)).length
  numX : r.numExtensions = (a.filter (fun t => t.kind = .extension)).length

theorem tinv_init : TInv {} [] :=
  ⟨rfl, by intro m; simp [alLookup, Spec.extsOf], rfl, rfl, rfl⟩

theorem lookup_byName (a : List TypeD) (n : FullName) :
    alLookup n (a.map (fun t => (t.full, t))) = a.find? (fun t => t.full = n) := by
  rw [alLookup_map (fun t : TypeD => t.full) (fun t => t)]; simp

theorem lookup_byNumber (l : List TypeD) (k : Nat) :
    alLookup k (l.map (fun t => (t.number, t))) = l.find? (fun t => t.number = k) := by
  rw [alLookup_map (fun t : TypeD => t.number) (fun t => t)]; simp

theorem find?_isSome_iff_mem_map {α β : Type} [DecidableEq β] (l : List α) (key : α → β) (n : β) :
    (l.find? (fun t => key t = n)) = none ↔ n ∉ l.map key := by
  rw [List.find?_eq_none]
  simp only [decide_eq_true_eq, List.mem_map, not_exists, not_and]

theorem registerName_refines {r : Types} {a : List TypeD} (inv : TInv r a) (t : TypeD) :
    (t.full ∈ a.map (·.full) ∧ r.registerName t = none) ∨
    (t.full ∉ a.map (·.full) ∧
      r.registerName t = some { r with typesByName := (a ++ [t]).map (fun t => (t.full, t)) }) := by
  unfold Types.registerName
  rw [inv.byName, lookup_byName]
  cases h : a.find? (fun t' => t'.full = t.full) with
  | some t' =>
    left
    have := List.mem_of_find?_eq_some h
    have h2 := List.find?_some h
    simp only [decide_eq_true_eq] at h2
    exact ⟨List.mem_map.mpr ⟨t', this, h2⟩, rfl⟩
  | none =>
    right
    have hn := (find?_isSome_iff_mem_map a (·.full) t.full).mp h
    refine ⟨hn, ?_⟩
    simp only
    rw [alSet_of_lookup_none _ (by rw [lookup_byName]; exact h)]
    simp

theorem extsOf_append_other (a : List TypeD) (t : TypeD) (m : FullName)
    (h : ¬ (t.kind = .extension ∧ t.extendee = m)) : Spec.extsOf (a ++ [t]) m = Spec.extsOf a m := by
  simp [Spec.extsOf, List.filter_append, h]

theorem extsOf_append_self (a : List TypeD) (t : TypeD) (h : t.kind = .extension) :
    Spec.extsOf (a ++ [t]) t.extendee = Spec.extsOf a t.extendee ++ [t] := by
  simp [Spec.extsOf, List.filter_append, h]

theorem filter_kind_append (a : List TypeD) (t : TypeD) (k : TKind) :
    (a ++ [t]).filter (fun t => t.kind = k) =
      a.filter (fun t => t.kind = k) ++ (if t.kind = k then [t] else []) := by
  by_cases h : t.kind = k <;> simp [List.filter_append, h]

/-- registration of a message or enum type -/
theorem registerPlain_refines {r : Types} {a : List TypeD} (inv : TInv r a) (t : TypeD)
    (hk : t.kind ≠ .extension) (bump : Types → Types)
    (hb1 : ∀ r', (bump r').typesByName = r'.typesByName)
    (hb2 : ∀ r', (bump r').extensionsByMessage = r'.extensionsByMessage)
    (hbE : ∀ r', (bump r').numEnums = r'.numEnums + (if t.kind = .enum then 1 else 0))
    (hbM : ∀ r', (bump r').numMessages = r'.numMessages + (if t.kind = .message then 1 else 0))
    (hbX : ∀ r', (bump r').numExtensions = r'.numExtensions) :
    let res := match r.registerName t with
      | none => (r, TRes.errName)
      | some r' => (bump r', TRes.regOk)
    res.2 = (Spec.registerT a t).2 ∧ TInv res.1 (Spec.registerT a t).1 := by
  have hspec : ¬ (t.kind = .extension ∧ t.number ∈ (Spec.extsOf a t.extendee).map (·.number)) :=
    fun h => hk h.1
  unfold Spec.registerT
  rw [if_neg hspec]
  rcases registerName_refines inv t with ⟨h1, h2⟩ | ⟨h1, h2⟩
  · rw [h2, if_pos h1]; exact ⟨rfl, inv⟩
  · rw [h2, if_neg h1]
    refine ⟨rfl, ⟨?_, ?_, ?_, ?_, ?_⟩⟩
    · simp only [hb1]
    · intro m
      simp only [hb2]
      rw [inv.exts m, extsOf_append_other a t m (fun h => hk h.1)]
    · simp only [hbE, inv.numE, filter_kind_append]
      by_cases h : t.kind = .enum <;> simp [h]
    · simp only [hbM, inv.numM, filter_kind_append]
      by_cases h : t.kind = .message <;> simp [h]
    · simp only [hbX, inv.numX, filter_kind_append, hk, if_false, List.append_nil]

theorem registerMessage_refines {r : Types} {a : List TypeD} (inv : TInv r a) (n : FullName) :
    (r.registerMessage n).2 = (Spec.registerT a { kind := .message, full := n }).2 ∧
    TInv (r.registerMessage n).1 (Spec.registerT a { kind := .message, full := n }).1 := by
  have := registerPlain_refines inv { kind := .message, full := n } (by simp)
    (fun r' => { r' with numMessages := r'.numMessages + 1 })
    (fun _ => rfl) (fun _ => rfl) (fun _ => by simp) (fun _ => by simp) (fun _ => rfl)
  unfold Types.registerMessage
  cases h : r.registerName { kind := .message, full := n } <;> simp only [h] at this ⊢ <;> exact this

theorem registerEnum_refines {r : Types} {a : List TypeD} (inv : TInv r a) (n : FullName) :
    (r.registerEnum n).2 = (Spec.registerT a { kind := .enum, full := n }).2 ∧
    TInv (r.registerEnum n).1 (Spec.registerT a { kind := .enum, full := n }).1 := by
  have := registerPlain_refines inv { kind := .enum, full := n } (by simp)
    (fun r' => { r' with numEnums := r'.numEnums + 1 })
    (fun _ => rfl) (fun _ => rfl) (fun _ => by simp) (fun _ => by simp) (fun _ => rfl)
  unfold Types.registerEnum
  cases h : r.registerName { kind := .enum, full := n } <;> simp only [h] at this ⊢ <;> exact this

theorem registerExtension_refines {r : Types} {a : List TypeD} (inv : TInv r a)
    (n e : FullName) (k : Nat) :
    (r.registerExtension n e k).2 =
      (Spec.registerT a { kind := .extension, full := n, extendee := e, number := k }).2 ∧
    TInv (r.registerExtension n e k).1
      (Spec.registerT a { kind := .extension, full := n, extendee := e, number := k }).1 := by
  unfold Types.registerExtension Spec.registerT
  simp only [inv.exts e, lookup_byNumber, true_and]
  cases hx : (Spec.extsOf a e).find? (fun t => t.number = k) with
  | some t' =>
    have h1 := List.mem_of_find?_eq_some hx
    have h2 := List.find?_some hx
    simp only [decide_eq_true_eq] at h2
    have : k ∈ (Spec.extsOf a e).map (·.number) := List.mem_map.mpr ⟨t', h1, h2⟩
    simp only [this, if_true]
    close_inv inv
  | none =>
    have hn := (find?_isSome_iff_mem_map (Spec.extsOf a e) (·.number) k).mp hx
    simp only [hn, if_false]
    rcases registerName_refines inv { kind := .extension, full := n, extendee := e, number := k } with
      ⟨h1, h2⟩ | ⟨h1, h2⟩
    · rw [h2]; simp only at h1; rw [if_pos h1]; close_inv inv
    · rw [h2]; simp only at h1; rw [if_neg h1]
      refine ⟨rfl, ⟨rfl, ?_, ?_, ?_, ?_⟩⟩
      · intro m
        simp only [inv.exts e]
        rw [alLookup_alSet]
        by_cases hm : m = e
        · subst hm
          simp only [if_true, Option.getD_some]
          rw [alSet_of_lookup_none _ (by rw [lookup_byNumber]; exact hx)]
          have := extsOf_append_self a { kind := .extension, full := n, extendee := m, number := k } rfl
          simp only at this
          rw [this]; simp
        · simp only [hm, if_false]
          rw [inv.exts m, extsOf_append_other]
          simp only [true_and]
          exact fun h => hm h.symm
      · simp [inv.numE]
      · simp [inv.numM]
      · simp [inv.numX]

/-- every `Types` call answers as the abstract list of accepted types does, and keeps the invariant -/
theorem typesStep_refines {r : Types} {a : List TypeD} (inv : TInv r a) (op : TOp) :
    (r.step op).2 = (Spec.stepT a op).2 ∧ TInv (r.step op).1 (Spec.stepT a op).1 := by
  cases op with
  | regMessage n => exact registerMessage_refines inv n
  | regEnum n => exact registerEnum_refines inv n
  | regExtension n e k => exact registerExtension_refines inv n e k
  | findMessage n =>
    simp only [Types.step, Spec.stepT, Types.findKind, Spec.findKind, inv.byName, lookup_byName]
    close_inv inv
  | findMessageURL u =>
    simp only [Types.step, Spec.stepT, Types.findMessageByURL, Types.findKind, Spec.findKind, inv.byName, lookup_byName]
    close_inv inv
  | findEnum n =>
    simp only [Types.step, Spec.stepT, Types.findKind, Spec.findKind, inv.byName, lookup_byName]
    close_inv inv
  | findExtension n =>
    simp only [Types.step, Spec.stepT, Types.findKind, Spec.findKind, inv.byName, lookup_byName]
    close_inv inv
  | findExtensionByNumber m k =>
    simp only [Types.step, Spec.stepT, Types.findExtensionByNumber, inv.exts m, lookup_byNumber]
    close_inv inv
  | numMessages => simp only [Types.step, Spec.stepT, inv.numM]; close_inv inv
  | numEnums => simp only [Types.step, Spec.stepT, inv.numE]; close_inv inv
  | numExtensions => simp only [Types.step, Spec.stepT, inv.numX]; close_inv inv
  | rangeMessages =>
    simp only [Types.step, Spec.stepT, Types.rangeKind, inv.byName, List.map_map]
    close_inv inv
  | rangeEnums =>
    simp only [Types.step, Spec.stepT, Types.rangeKind, inv.byName, List.map_map]
    close_inv inv
  | rangeExtensions =>
    simp only [Types.step, Spec.stepT, Types.rangeKind, inv.byName, List.map_map]
    close_inv inv
  | numExtensionsByMessage m =>
    simp only [Types.step, Spec.stepT, inv.exts m, List.length_map]; close_inv inv
  | rangeExtensionsByMessage m =>
    simp only [Types.step, Spec.stepT, Types.rangeExtensionsByMessage, inv.exts m, List.map_map]
    close_inv inv

end Model.Registry
