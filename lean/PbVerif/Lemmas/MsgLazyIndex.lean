import PbVerif.Model.Lazy
/-
The lazy index (protolazy.IndexEntry as built by unmarshalPointerLazy): for every field the recorded
ranges cover exactly the deferred records of that field, in input order.  Core-only.
-/
namespace Pb
open Spec

/-! ### the lazy index -/

/-- the bytes of `buf` in `[s, e)` -/
def slice (buf : List Byte) (se : Nat × Nat) : List Byte := (buf.drop se.1).take (se.2 - se.1)

theorem slice_append (buf : List Byte) {s e e' : Nat} (h1 : s ≤ e) (h2 : e ≤ e') :
    slice buf (s, e) ++ slice buf (e, e') = slice buf (s, e') := by
  unfold slice
  simp only
  have : e' - s = (e - s) + (e' - e) := by omega
  rw [this, List.take_add, List.drop_drop]
  congr 3
  omega

abbrev Span := Nat × Nat × Nat × RecKind

/-- records with their byte positions: (number, start, stop, treatment) -/
def recSpans : Nat → List LRec → List Span
  | _, [] => []
  | pos, (num, len, kind) :: rs => (num, pos, pos + len, kind) :: recSpans (pos + len) rs

/-- byte ranges of the deferred records of field `k`, in input order -/
def deferredSpans (sp : List Span) (k : Nat) : List (Nat × Nat) :=
  (sp.filter fun r => r.2.2.2 == .deferred && r.1 == k).map fun r => (r.2.1, r.2.2.1)

/-- records of one field number are either all of a lazy field (deferred / sent to the unknown
fields) or all of another field -/
def Consistent (sp : List Span) : Prop :=
  ∀ r1 ∈ sp, ∀ r2 ∈ sp, r1.1 = r2.1 → (r1.2.2.2 = .other ↔ r2.2.2.2 = .other)

def entryRanges (idx : List IndexEntry) (k : Nat) : List (Nat × Nat) :=
  (idx.filter (·.num == k)).map fun e => (e.start, e.stop)

/-- loop invariant of the index construction (`st.1` is the index in reverse order) -/
structure IdxInv (buf : List Byte) (st : List IndexEntry × Nat × Bool × Nat) (done : List Span) : Prop where
  content : ∀ k, (entryRanges st.1.reverse k).flatMap (slice buf) = (deferredSpans done k).flatMap (slice buf)
  bounds : ∀ e ∈ st.1, e.start ≤ e.stop ∧ e.stop ≤ st.2.2.2 ∧ e.start < st.2.2.2
  first : done = [] → st.2.1 = 0
  last : ∀ r, done.getLast? = some r → st.2.1 = r.1 ∧
    (r.2.2.2 = .deferred → st.2.2.1 = false ∧ ∃ e tl, st.1 = e :: tl ∧ e.num = r.1 ∧ e.stop = st.2.2.2) ∧
    (r.2.2.2 = .lazyUnknown → st.2.2.1 = true)
  starts : st.1.Pairwise (fun a b => b.start < a.start)

theorem entryRanges_append (a b : List IndexEntry) (k : Nat) :
    entryRanges (a ++ b) k = entryRanges a k ++ entryRanges b k := by
  simp [entryRanges, List.filter_append]

theorem deferredSpans_append (a b : List Span) (k : Nat) :
    deferredSpans (a ++ b) k = deferredSpans a k ++ deferredSpans b k := by
  simp [deferredSpans, List.filter_append]

theorem idx_step (buf : List Byte) (st : List IndexEntry × Nat × Bool × Nat) (done : List Span) (r : LRec)
    (h : IdxInv buf st done) (hlen : 1 ≤ r.2.1) (hnum : 1 ≤ r.1)
    (hcons : Consistent (done ++ [(r.1, st.2.2.2, st.2.2.2 + r.2.1, r.2.2)])) :
    IdxInv buf (indexStep st r) (done ++ [(r.1, st.2.2.2, st.2.2.2 + r.2.1, r.2.2)]) := by
  obtain ⟨idx, lastNum, split, pos⟩ := st
  obtain ⟨num, len, kind⟩ := r
  simp only at hlen hnum hcons ⊢
  have hbounds' : ∀ e ∈ idx, e.start ≤ e.stop ∧ e.stop ≤ pos + len ∧ e.start < pos + len := by
    intro e he; have := h.bounds e he; simp only at this; omega
  cases kind with
  | other =>
    simp only [indexStep]
    refine ⟨?_, hbounds', by simp, ?_, h.starts⟩
    · intro k; rw [deferredSpans_append]; simpa [deferredSpans] using h.content k
    · intro r hr; simp only [List.getLast?_concat, Option.some.injEq] at hr; subst hr; simp
  | lazyUnknown =>
    simp only [indexStep]
    refine ⟨?_, hbounds', by simp, ?_, h.starts⟩
    · intro k; rw [deferredSpans_append]; simpa [deferredSpans] using h.content k
    · intro r hr; simp only [List.getLast?_concat, Option.some.injEq] at hr; subst hr; simp
  | deferred =>
    simp only [indexStep]
    have hnew : IdxInv buf (⟨num, pos, pos + len⟩ :: idx, num, false, pos + len)
        (done ++ [(num, pos, pos + len, .deferred)]) := by
      refine ⟨?_, ?_, by simp, ?_, ?_⟩
      · intro k
        simp only [List.reverse_cons, entryRanges_append, deferredSpans_append, List.flatMap_append]
        rw [h.content k]
        congr 1
        by_cases hk : num = k <;> simp [entryRanges, deferredSpans, hk]
      · intro e he
        simp only [List.mem_cons] at he
        rcases he with rfl | he
        · simp only; omega
        · exact hbounds' e he
      · intro r hr; simp only [List.getLast?_concat, Option.some.injEq] at hr; subst hr
        simp
      · rw [List.pairwise_cons]
        refine ⟨?_, h.starts⟩
        intro e he; have := h.bounds e he; simp only at this ⊢; omega
    by_cases hc : (num ≠ lastNum || split) = true
    · simp only [hc, if_true]; exact hnew
    · simp only [hc, Bool.false_eq_true, if_false]
      simp only [Bool.or_eq_true, decide_eq_true_eq, not_or, ne_eq, Decidable.not_not, Bool.not_eq_true] at hc
      obtain ⟨hnl, hsp⟩ := hc
      subst hnl
      -- the previous record is a deferred record of the same field
      cases hd : done.getLast? with
      | none =>
        have := h.first (List.getLast?_eq_none_iff.mp hd); simp only at this; omega
      | some rl =>
        obtain ⟨hl1, hl2, hl3⟩ := h.last rl hd
        simp only at hl1 hl2 hl3
        have hmem : rl ∈ done := List.mem_of_getLast? hd
        have hk := hcons rl (by simp [hmem]) (num, pos, pos + len, .deferred) (by simp) (by simp [hl1])
        have hrk : rl.2.2.2 = .deferred := by
          cases hk' : rl.2.2.2 with
          | other => simp [hk'] at hk
          | lazyUnknown => have := hl3 hk'; rw [hsp] at this; cases this
          | deferred => rfl
        obtain ⟨_, e, tl, hidx, hen, hes⟩ := hl2 hrk
        subst hidx
        simp only
        have hbe := h.bounds e (by simp)
        simp only at hbe
        refine ⟨?_, ?_, by simp, ?_, ?_⟩
        · intro k
          have hc0 := h.content k
          simp only [List.reverse_cons, entryRanges_append, deferredSpans_append, List.flatMap_append] at hc0 ⊢
          rw [← hc0]
          by_cases hkk : e.num = k
          · have hnk : num = k := by rw [← hkk, hen, hl1]
            simp only [entryRanges, deferredSpans, hkk, hnk, beq_self_eq_true, List.filter_cons_of_pos, List.filter_nil,
              List.map_cons, List.map_nil, List.flatMap_cons, List.flatMap_nil, List.append_nil, Bool.and_self,
              List.append_assoc]
            rw [hes]
            rw [slice_append buf (by omega) (by omega)]
          · have hnk : ¬ num = k := by rw [hl1, ← hen]; exact hkk
            simp [entryRanges, deferredSpans, hkk, hnk]
        · intro e' he'
          simp only [List.mem_cons] at he'
          rcases he' with rfl | he'
          · simp only; omega
          · exact hbounds' e' (by simp [he'])
        · intro r hr; simp only [List.getLast?_concat, Option.some.injEq] at hr; subst hr
          simp only [true_and, reduceCtorEq, false_implies, and_true]
          intro _
          exact ⟨_, _, rfl, by rw [hen, hl1], rfl⟩
        · have := h.starts
          rw [List.pairwise_cons] at this ⊢
          exact this

theorem indexStep_pos (st : List IndexEntry × Nat × Bool × Nat) (r : LRec) :
    (indexStep st r).2.2.2 = st.2.2.2 + r.2.1 := by
  obtain ⟨idx, lastNum, split, pos⟩ := st
  obtain ⟨num, len, kind⟩ := r
  cases kind <;> simp only [indexStep]
  split
  · rfl
  · cases idx <;> rfl

theorem Consistent_mono {a b : List Span} (h : ∀ x ∈ a, x ∈ b) (hb : Consistent b) : Consistent a :=
  fun r1 h1 r2 h2 => hb r1 (h r1 h1) r2 (h r2 h2)

theorem idx_fold (buf : List Byte) : ∀ (rs : List LRec) (st : List IndexEntry × Nat × Bool × Nat) (done : List Span),
    IdxInv buf st done → (∀ r ∈ rs, 1 ≤ r.2.1) → (∀ r ∈ rs, 1 ≤ r.1) →
    Consistent (done ++ recSpans st.2.2.2 rs) →
    IdxInv buf (rs.foldl indexStep st) (done ++ recSpans st.2.2.2 rs)
  | [], st, done, h, _, _, _ => by simpa [recSpans] using h
  | r :: rs, st, done, h, hlen, hnum, hcons => by
    obtain ⟨num, len, kind⟩ := r
    have hstep := idx_step buf st done (num, len, kind) h (hlen _ (by simp)) (hnum _ (by simp))
      (Consistent_mono (by intro x hx; simp only [recSpans, List.mem_append, List.mem_cons, List.mem_singleton,
        List.not_mem_nil, or_false] at hx ⊢; rcases hx with hx | hx; exact Or.inl hx; exact Or.inr (Or.inl hx)) hcons)
    have hpos := indexStep_pos st (num, len, kind)
    simp only at hpos hstep
    have := idx_fold buf rs (indexStep st (num, len, kind)) _ hstep (fun r hr => hlen r (by simp [hr]))
      (fun r hr => hnum r (by simp [hr])) (by rw [hpos]; simpa [recSpans, List.append_assoc] using hcons)
    rw [hpos] at this
    simpa [recSpans, List.append_assoc] using this

theorem IdxInv_init (buf : List Byte) : IdxInv buf ([], 0, false, 0) [] :=
  ⟨(by intro k; rfl), (by intro e he; cases he), (fun _ => rfl), (by intro r hr; cases hr), List.Pairwise.nil⟩

/-! sorting by (FieldNum, Start) does not change what `lookup` returns for any field -/

theorem mem_insEntry {e x : IndexEntry} : ∀ {l : List IndexEntry}, x ∈ insEntry e l ↔ x = e ∨ x ∈ l
  | [] => by simp [insEntry]
  | y :: tl => by
    simp only [insEntry]
    split
    · simp
    · simp only [List.mem_cons, mem_insEntry (l := tl)]
      constructor
      · rintro (h | h | h) <;> simp [h]
      · rintro (h | h | h) <;> simp [h]

theorem mem_sortIndex {x : IndexEntry} : ∀ {l : List IndexEntry}, x ∈ sortIndex l ↔ x ∈ l
  | [] => by simp [sortIndex]
  | e :: tl => by simp [sortIndex, mem_insEntry, mem_sortIndex (l := tl)]

theorem filter_insEntry (e : IndexEntry) (k : Nat) : ∀ (s : List IndexEntry),
    (∀ x ∈ s, x.num = e.num → e.start < x.start) →
    (insEntry e s).filter (·.num == k) = if e.num = k then e :: s.filter (·.num == k) else s.filter (·.num == k)
  | [], _ => by
    by_cases hk : e.num = k <;> simp [insEntry, hk]
  | y :: tl, h => by
    simp only [insEntry]
    by_cases hl : idxLess e y = true
    · simp only [hl, if_true]
      by_cases hk : e.num = k <;> simp [List.filter_cons, hk]
    · simp only [hl, Bool.false_eq_true, if_false]
      have ih := filter_insEntry e k tl (fun x hx => h x (by simp [hx]))
      have hy : y.num ≠ e.num := by
        intro hye
        have := h y (by simp) hye
        apply hl
        simp [idxLess, hye, this]
      rw [List.filter_cons, ih]
      by_cases hk : e.num = k
      · have : ¬ y.num = k := by rw [← hk]; exact hy
        simp [hk, this, List.filter_cons]
      · simp [hk, List.filter_cons]

theorem lookup_sortIndex (k : Nat) : ∀ (l : List IndexEntry), l.Pairwise (fun a b => a.start < b.start) →
    lookup (sortIndex l) k = lookup l k
  | [], _ => rfl
  | e :: tl, h => by
    rw [List.pairwise_cons] at h
    have ih := lookup_sortIndex k tl h.2
    unfold lookup at ih ⊢
    simp only [sortIndex]
    rw [filter_insEntry e k (sortIndex tl) (fun x hx _ => h.1 x (mem_sortIndex.mp hx))]
    by_cases hk : e.num = k
    · simp only [hk, if_true, List.map_cons, List.filter_cons, beq_self_eq_true]
      rw [ih]
    · simp only [hk, if_false, List.filter_cons]
      rw [ih]; simp [hk]

/-- **the index is correct**: for every field, the ranges `FindFieldInProto` returns — also after the
sort that out-of-order input triggers — cover exactly the deferred records of that field, in input
order (records that went to the unknown fields and records of other fields are not covered;
contiguous records share one entry) -/
theorem index_correct (buf : List Byte) (rs : List LRec) (hlen : ∀ r ∈ rs, 1 ≤ r.2.1) (hnum : ∀ r ∈ rs, 1 ≤ r.1)
    (hcons : Consistent (recSpans 0 rs)) (k : Nat) :
    (lookup (buildIndex rs) k).flatMap (slice buf) = (deferredSpans (recSpans 0 rs) k).flatMap (slice buf) := by
  have hinv := idx_fold buf rs ([], 0, false, 0) [] (IdxInv_init buf) hlen hnum (by simpa using hcons)
  simp only [List.nil_append] at hinv
  unfold buildIndex rawIndex
  rw [lookup_sortIndex]
  · exact hinv.content k
  · have := hinv.starts
    rw [List.pairwise_reverse]
    exact this

end Pb
