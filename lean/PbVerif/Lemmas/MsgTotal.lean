import PbVerif.Lemmas.MsgDec
/-
Totality of the decoder on arbitrary bytes: general fuel adequacy, success implies that the input
is a sequence of complete wire records.  Used by Props/C06.
-/
namespace Pb
open Spec

theorem decSubBytes_no_fuel (f : Field) (wt : Nat) (val : List Byte) :
    decSubBytes f wt val ≠ some (.error .fuel) := by
  unfold decSubBytes; repeat' split
  all_goals simp

theorem decScalar_no_fuel (f : Field) (wt : Nat) (val : List Byte) :
    decScalar f wt val ≠ some (.error .fuel) := by
  unfold decScalar; repeat' split
  all_goals simp

/-- **fuel adequacy in general**: with `fuelFor` no loop of the decoder runs out of fuel, on any input -/
theorem dec_no_fuel : ∀ (fuel : Nat),
    (∀ S mi m b depth dis, b.length + 2 ≤ fuel → decMsg fuel S mi m b depth dis ≠ .error .fuel) ∧
    (∀ S mi m f wt val depth dis, val.length + 2 ≤ fuel → decField fuel S mi m f wt val depth dis ≠ .err .fuel) ∧
    (∀ S kf vf k v b depth dis, b.length + 2 ≤ fuel → decEntry fuel S kf vf k v b depth dis ≠ .error .fuel)
  | 0 => by refine ⟨?_, ?_, ?_⟩ <;> intros <;> omega
  | fuel + 1 => by
    obtain ⟨ihA, ihB, ihC⟩ := dec_no_fuel fuel
    refine ⟨?_, ?_, ?_⟩
    · intro S mi m b depth dis hf
      unfold decMsg
      split
      · simp
      · split
        · simp
        · rename_i num wt tl ht
          have htl := decTag_len ht
          simp only
          by_cases hmax : num > maxValidNumber
          · simp [hmax]
          · simp only [hmax, if_false]
            have hval : (b.drop tl).length + 2 ≤ fuel := by simp only [List.length_drop]; omega
            have hnext : ∀ n m', decMsg fuel S mi m' ((b.drop tl).drop n) depth dis ≠ .error .fuel := by
              intro n m'; apply ihA; simp only [List.length_drop]; omega
            cases hfind : (S.msg mi).find num with
            | none =>
              simp only
              split
              · simp
              · exact hnext _ _
            | some f =>
              simp only
              cases hstep : decField fuel S mi m f wt (b.drop tl) depth dis with
              | err e =>
                simp only
                intro h; cases h
                exact ihB _ _ _ _ _ _ _ _ hval hstep
              | ok m' =>
                simp only
                split
                · simp
                · exact hnext _ _
              | unknown =>
                simp only
                split
                · simp
                · exact hnext _ _
    · intro S mi m f wt val depth dis hf
      unfold decField
      repeat' (first | split | (dsimp only; split))
      all_goals first
        | (simp; done)
        | (intro h; cases h
           first
             | exact absurd ‹decSubBytes _ _ _ = some (.error .fuel)› (decSubBytes_no_fuel _ _ _)
             | exact absurd ‹decScalar _ _ _ = some (.error .fuel)› (decScalar_no_fuel _ _ _)
             | (have hp := decSubBytes_payload_len ‹decSubBytes _ _ _ = some (.ok _)›
                refine absurd ‹decMsg _ _ _ _ _ _ _ = .error .fuel› (ihA _ _ _ _ _ _ ?_); omega)
             | exact absurd ‹decPacked _ _ _ = .error .fuel› (decPacked_no_fuel _ _ _ (Nat.le_refl _))
             | (have hp := decBytes_payload_len ‹decBytes _ = .ok _›
                refine absurd ‹decEntry _ _ _ _ _ _ _ _ _ = .error .fuel› (ihC _ _ _ _ _ _ _ _ ?_); omega))
    · intro S kf vf k v b depth dis hf
      unfold decEntry
      split
      · simp
      · split
        · simp
        · rename_i num wt tl ht
          have htl := decTag_len ht
          simp only
          by_cases hmax : num > maxValidNumber
          · simp [hmax]
          · simp only [hmax, if_false]
            have hnext : ∀ k' v', (match consumeFieldValue num wt (b.drop tl) with
                | .error _ => (.error .decode : Except DErr (Option Val × Option Val))
                | .ok n => decEntry fuel S kf vf k' v' ((b.drop tl).drop n) depth dis) ≠ .error .fuel := by
              intro k' v'
              split
              · simp
              · apply ihC; simp only [List.length_drop]; omega
            repeat' (first | split | (dsimp only; split))
            all_goals first
              | exact hnext _ _
              | (apply ihC; simp only [List.length_drop]; omega)
              | (simp; done)
              | (intro h; cases h
                 first
                   | exact absurd ‹decSubBytes _ _ _ = some (.error .fuel)› (decSubBytes_no_fuel _ _ _)
                   | exact absurd ‹decScalar _ _ _ = some (.error .fuel)› (decScalar_no_fuel _ _ _)
                   | (have hp := decSubBytes_payload_len ‹decSubBytes _ _ _ = some (.ok _)›
                      simp only [List.length_drop] at hp
                      refine absurd ‹decMsg _ _ _ _ _ _ _ = .error .fuel› (ihA _ _ _ _ _ _ ?_); omega))

/-- `b` is a sequence of complete wire records (what `protowire.ConsumeField` accepts, record after
record, with the default group budget) -/
inductive WireSeq : List Byte → Prop
  | nil : WireSeq []
  | cons {b : List Byte} {num typ n : Nat} : b ≠ [] → consumeField b = .ok (num, typ, n) → num ≤ maxValidNumber →
      WireSeq (b.drop n) → WireSeq b

/-- a successful decode has read a sequence of complete records: malformed data at any record
boundary (bad tag, number 0 or > 2^29-1, truncated value, unbalanced group, …) makes it fail -/
theorem decMsg_ok_wireSeq : ∀ (fuel : Nat) (S : Schema) (mi : Nat) (m : Msg) (b : List Byte) (depth : Int)
    (dis : Bool) (r : Msg), decMsg fuel S mi m b depth dis = .ok r → WireSeq b
  | 0, _, _, _, _, _, _, _, h => by simp [decMsg] at h
  | fuel + 1, S, mi, m, b, depth, dis, r, h => by
    unfold decMsg at h
    split at h
    · exact .nil
    · rename_i hb
      split at h
      · simp at h
      · rename_i num wt tl ht
        simp only at h
        by_cases hmax : num > maxValidNumber
        · simp [hmax] at h
        · simp only [hmax, if_false] at h
          have key : ∀ n m', consumeFieldValue num wt (b.drop tl) = .ok n →
              decMsg fuel S mi m' ((b.drop tl).drop n) depth dis = .ok r → WireSeq b := by
            intro n m' hn hd
            have ih := decMsg_ok_wireSeq fuel S mi m' _ depth dis r hd
            rw [List.drop_drop] at ih
            refine .cons (num := num) (typ := wt) (n := tl + n) (fun e => hb e) ?_ (by omega) ih
            unfold consumeField; rw [ht]; simp only [hn]
          split at h
          · simp at h
          · split at h
            · simp at h
            · exact key _ _ ‹_› h
          · split at h
            · simp at h
            · exact key _ _ ‹_› h

end Pb
