import PbVerif.Lemmas.JsonTextRoundJM
/-
JSON round trip including populated map fields, part 2: the field spec of a map and the mutual induction.
-/
namespace JT
open Pb

/-- per entry: rendered entry fields, normalised value, key string, rendered value -/
abbrev Pay := List (Nat × JV) × Val × Str × JV

theorem sequenceE_some {ε α β : Type} (f : α → β) (e : ε) : ∀ l : List α,
    sequenceE (l.map fun x => some (f x)) e = .ok (l.map f)
  | [] => rfl
  | x :: tl => by simp [sequenceE, sequenceE_some f e tl, Except.map]

theorem valBEq_symm : ∀ (a b : Val), valBEq a b = valBEq b a
  | .num a, .num b => by
    simp only [valBEq]
    by_cases h : a = b
    · subst h; rfl
    · have h1 : (a == b) = false := by simpa using h
      have h2 : (b == a) = false := by simpa using (fun e : b = a => h e.symm)
      rw [h1, h2]
  | .bytes a, .bytes b => by
    simp only [valBEq]
    by_cases h : a = b
    · subst h; rfl
    · have h1 : (a == b) = false := by simpa using h
      have h2 : (b == a) = false := by simpa using (fun e : b = a => h e.symm)
      rw [h1, h2]
  | .num _, .bytes _ | .num _, .msg _ | .bytes _, .num _ | .bytes _, .msg _
  | .msg _, .num _ | .msg _, .bytes _ | .msg _, .msg _ => rfl

theorem Vals.toList_ofList' : ∀ l : List Val, (Vals.ofList l).toList = l
  | [] => rfl
  | x :: tl => by simp [Vals.ofList, Vals.toList, Vals.toList_ofList' tl]

theorem Vals.ofList_toList' : ∀ vs : Vals, Vals.ofList vs.toList = vs
  | .nil => rfl
  | .cons v tl => by simp [Vals.ofList, Vals.toList, Vals.ofList_toList' tl]

theorem normVal_key (X : SchemaX) (kf : FieldX) (k : Val) (hk : keyKindOK kf.f.kind = true)
    (hw : wfScalarJ kf k = true) : normVal X kf k = k := by
  cases k with
  | msg m => simp [wfScalarJ] at hw
  | bytes b => rfl
  | num n =>
    simp only [normVal, normNum]
    cases hkk : kf.f.kind <;> simp only [hkk, keyKindOK] at hk ⊢ <;> cases hk

/-- sorting normalised entries = the entries of the sorted list -/
theorem sortVals_entries (less : Val → Val → Bool) (l : List (Val × Pay)) :
    sortVals less (Vals.ofList (l.map fun t => Val.msg (mkEntry t.1 t.2.2.1))) =
      entriesOf ((sortK less l).map fun t => (t.1, t.2.2.1)) := by
  unfold sortVals entriesOf
  rw [Vals.toList_ofList']
  simp only [List.map_map, Function.comp_def, entryKey_mkEntry, Option.getD_some]
  rw [sortK_map less (fun k (p : Pay) => Val.msg (mkEntry k p.2.1)) l]
  simp only [List.map_map, Function.comp_def]

variable (C : JCodec) (D : DOpts) (X : SchemaX) (o : JOpts)

/-- a populated map field -/
theorem FSpec_map (fx : FieldX) (limit : Int) (vs : Vals) (T : List (Val × Pay)) (hc : fx.f.card = .map)
    (kf vf : FieldX) (h1 : (X.msg fx.f.sub).find 1 = some kf) (h2 : (X.msg fx.f.sub).find 2 = some vf)
    (hmem : ∀ t ∈ T, entryMember t.2.1 = some (t.2.2.2.1, t.2.2.2.2) ∧
      EntryOK C D X fx limit t.1 t.2.2.1 t.2.2.2.1 t.2.2.2.2)
    (hnorm : (normVals X fx vs).toList = T.map fun t => Val.msg (mkEntry t.1 t.2.2.1))
    (hpw : (T.map (·.1)).Pairwise fun a b => valBEq b a = false) (hne : T ≠ []) :
    ∃ ms, sequenceE ((sortK (keyLess (((X.msg fx.f.sub).find 1).map (·.f.kind) |>.getD .int32))
        (T.map fun t => (t.1, t.2.1))).map fun e => entryMember e.2) EErr.shape = .ok ms ∧
      FSpec C D X fx limit (.many vs) (.obj (JMembers.ofList ms)) := by
  generalize hless : keyLess (((X.msg fx.f.sub).find 1).map (·.f.kind) |>.getD .int32) = less
  let ST := sortK less T
  have hperm : ST.Perm T := sortK_perm less T
  have hST : ∀ t ∈ ST, entryMember t.2.1 = some (t.2.2.2.1, t.2.2.2.2) ∧
      EntryOK C D X fx limit t.1 t.2.2.1 t.2.2.2.1 t.2.2.2.2 :=
    fun t ht => hmem t (hperm.mem_iff.mp ht)
  refine ⟨ST.map fun t => (t.2.2.2.1, t.2.2.2.2), ?_, rfl, ?_⟩
  · have e1 : sortK less (T.map fun t => (t.1, t.2.1)) = ST.map fun t => (t.1, t.2.1) :=
      sortK_map less (fun _ (p : Pay) => p.1) T
    rw [e1, List.map_map]
    have e2 : (ST.map ((fun e => entryMember e.2) ∘ fun t => (t.1, t.2.1))) =
        ST.map fun t => some (t.2.2.2.1, t.2.2.2.2) := by
      apply List.map_congr_left
      intro t ht
      exact (hST t ht).1
    rw [e2]
    exact sequenceE_some (fun t : Val × Pay => (t.2.2.2.1, t.2.2.2.2)) EErr.shape ST
  · intro mi acc hs hg hno
    rw [dFieldVal_map C D X mi fx limit _ _ hc]
    simp only [Msg.fields, Msg.unknown, curVals, hg, dMap]
    -- decode the sorted members
    have hdec := dEntries_append C D X fx limit kf vf h1 h2
      (ST.map fun t => (t.1, t.2.2.1, t.2.2.2.1, t.2.2.2.2)) []
      (by
        intro t ht
        obtain ⟨q, hq, rfl⟩ := List.mem_map.mp ht
        exact (hST q hq).2)
      (by
        simp only [List.nil_append, List.map_map]
        have : (ST.map ((fun x => x.1) ∘ fun t => (t.1, t.2.2.1, t.2.2.2.1, t.2.2.2.2))) = ST.map (·.1) := by
          apply List.map_congr_left; intro t _; rfl
        rw [this]
        have hp2 : (ST.map (·.1)).Perm (T.map (·.1)) := hperm.map _
        exact (hp2.pairwise_iff (by
          intro a b h
          rw [valBEq_symm]
          exact h)).mpr hpw)
    simp only [List.map_map, List.nil_append, List.map_nil] at hdec
    have hm1 : (ST.map ((fun t => (t.2.2.1, t.2.2.2)) ∘ fun t => (t.1, t.2.2.1, t.2.2.2.1, t.2.2.2.2))) =
        ST.map fun t => (t.2.2.2.1, t.2.2.2.2) := by
      apply List.map_congr_left; intro t _; rfl
    rw [hm1] at hdec
    have hcur : entriesOf [] = Vals.nil := rfl
    rw [hcur] at hdec
    rw [hdec]
    simp only [storeMap, Msg.fields, Msg.unknown]
    -- the decoded entries are the sorted normal form
    have hm2 : (ST.map ((fun t => (t.1, t.2.1)) ∘ fun t => (t.1, t.2.2.1, t.2.2.2.1, t.2.2.2.2))) =
        ST.map fun t => (t.1, t.2.2.1) := by
      apply List.map_congr_left; intro t _; rfl
    rw [hm2]
    have hnorm2 : normFVal X fx (.many vs) = .many (entriesOf (ST.map fun t => (t.1, t.2.2.1))) := by
      simp only [normFVal, hc, if_true, hless]
      have : normVals X fx vs = Vals.ofList (T.map fun t => Val.msg (mkEntry t.1 t.2.2.1)) := by
        rw [← hnorm, Vals.ofList_toList']
      rw [this, sortVals_entries less T]
    rw [hnorm2]
    have hnil : (entriesOf (ST.map fun t => (t.1, t.2.2.1))).isNil = false := by
      have : ST ≠ [] := by
        intro h
        apply hne
        have := hperm.length_eq
        rw [h] at this
        exact List.length_eq_zero_iff.mp this.symm
      cases hS : ST with
      | nil => exact absurd hS this
      | cons a b => simp [entriesOf, Vals.ofList, Vals.isNil]
    simp [setMap, hnil]

end JT
