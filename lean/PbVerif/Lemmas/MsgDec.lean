import PbVerif.Lemmas.MsgWF
/-
Step lemmas for the fuel-based decoder of `Model/Msg.lean`: what one iteration of the record loop
does on a record produced by the encoder, for every record shape.
-/
namespace Pb
open Spec

/-- decoding `b` into `m` succeeds with `R`, for every adequate fuel (`fuelFor b = b.length + 2`) -/
def DecTo (S : Schema) (mi : Nat) (depth : Int) (dis : Bool) (m : Msg) (b : List Byte)
    (r : Except DErr Msg) : Prop :=
  ∀ fuel, b.length + 2 ≤ fuel → decMsg fuel S mi m b depth dis = r

/-- decoding `b` into `m` succeeds with `R`, for every adequate fuel -/
abbrev DecOK (S : Schema) (mi : Nat) (depth : Int) (dis : Bool) (m : Msg) (b : List Byte) (R : Msg) : Prop :=
  DecTo S mi depth dis m b (.ok R)

theorem DecOK_nil (S : Schema) (mi : Nat) (depth : Int) (dis : Bool) (m : Msg) : DecOK S mi depth dis m [] m := by
  intro fuel hf
  cases fuel with
  | zero => simp at hf
  | succ f => simp [decMsg]

theorem tagBytes_ne_nil (num typ : Nat) (r : List Byte) : tagBytes num typ ++ r ≠ [] :=
  encVarint_append_ne_nil _ _

theorem tagBytes_pos (num typ : Nat) : 1 ≤ (tagBytes num typ).length := encVarint_length_pos _

/-- one loop iteration on a record of a declared field that `decField` accepts -/
theorem decMsg_known {S : Schema} {mi : Nat} {m m' : Msg} {f : Field} {wt : Nat} {val : List Byte}
    {depth : Int} {dis : Bool} {n : Nat} (fuel : Nat)
    (h1 : 1 ≤ f.num) (h2 : f.num ≤ maxValidNumber) (hwt : wt < 8)
    (hfind : (S.msg mi).find f.num = some f)
    (hfield : decField fuel S mi m f wt val depth dis = .ok m')
    (hlen : consumeFieldValue f.num wt val = .ok n) :
    decMsg (fuel + 1) S mi m (tagBytes f.num wt ++ val) depth dis = decMsg fuel S mi m' (val.drop n) depth dis := by
  have hmax : f.num < 2 ^ 31 := by unfold maxValidNumber at h2; omega
  have htag := decTag_enc h1 hmax hwt val
  conv => lhs; unfold decMsg
  split
  · rename_i heq; exact absurd heq (tagBytes_ne_nil _ _ _)
  · unfold tagBytes
    rw [htag]
    simp only
    have : ¬ f.num > maxValidNumber := by omega
    simp only [this, if_false, hfind, List.drop_left', hfield, hlen]

/-- one loop iteration on a record whose number is not declared -/
theorem decMsg_unknown {S : Schema} {mi : Nat} {m : Msg} {b : List Byte} {num wt tl : Nat}
    {depth : Int} {dis : Bool} {n : Nat} (fuel : Nat) (hb : b ≠ [])
    (ht : decTag b = .ok (num, wt, tl)) (hmax : num ≤ maxValidNumber)
    (hfind : (S.msg mi).find num = none)
    (hlen : consumeFieldValue num wt (b.drop tl) = .ok n) :
    decMsg (fuel + 1) S mi m b depth dis =
      decMsg fuel S mi (if dis then m else Msg.mk m.fields (m.unknown ++ b.take (tl + n)))
        ((b.drop tl).drop n) depth dis := by
  conv => lhs; unfold decMsg
  split
  · exact absurd rfl hb
  · rw [ht]
    simp only
    have : ¬ num > maxValidNumber := by omega
    simp only [this, if_false, hfind, hlen]

/-- chaining: if the rest decodes to `r` from the updated message, the whole buffer does -/
theorem DecTo_known {S : Schema} {mi : Nat} {m m' : Msg} {r : Except DErr Msg} {f : Field} {wt : Nat}
    {payload rest : List Byte} {depth : Int} {dis : Bool}
    (h1 : 1 ≤ f.num) (h2 : f.num ≤ maxValidNumber) (hwt : wt < 8)
    (hfind : (S.msg mi).find f.num = some f)
    (hfield : ∀ fuel, (tagBytes f.num wt ++ (payload ++ rest)).length + 1 ≤ fuel →
      decField fuel S mi m f wt (payload ++ rest) depth dis = .ok m')
    (hlen : consumeFieldValue f.num wt (payload ++ rest) = .ok payload.length)
    (hrest : DecTo S mi depth dis m' rest r) :
    DecTo S mi depth dis m (tagBytes f.num wt ++ (payload ++ rest)) r := by
  intro fuel hf
  cases fuel with
  | zero => omega
  | succ fu =>
    rw [decMsg_known fu h1 h2 hwt hfind (hfield fu (by omega)) hlen, List.drop_left]
    apply hrest
    have := tagBytes_pos f.num wt
    simp only [List.length_append] at hf; omega

theorem DecOK_known {S : Schema} {mi : Nat} {m m' R : Msg} {f : Field} {wt : Nat} {payload rest : List Byte}
    {depth : Int} {dis : Bool}
    (h1 : 1 ≤ f.num) (h2 : f.num ≤ maxValidNumber) (hwt : wt < 8)
    (hfind : (S.msg mi).find f.num = some f)
    (hfield : ∀ fuel, (tagBytes f.num wt ++ (payload ++ rest)).length + 1 ≤ fuel →
      decField fuel S mi m f wt (payload ++ rest) depth dis = .ok m')
    (hlen : consumeFieldValue f.num wt (payload ++ rest) = .ok payload.length)
    (hrest : DecOK S mi depth dis m' rest R) :
    DecOK S mi depth dis m (tagBytes f.num wt ++ (payload ++ rest)) R :=
  DecTo_known h1 h2 hwt hfind hfield hlen hrest

/-- a record of a declared field that `decField` rejects aborts the decode with that error -/
theorem DecTo_known_err {S : Schema} {mi : Nat} {m : Msg} {e : DErr} {f : Field} {wt : Nat}
    {val : List Byte} {depth : Int} {dis : Bool}
    (h1 : 1 ≤ f.num) (h2 : f.num ≤ maxValidNumber) (hwt : wt < 8)
    (hfind : (S.msg mi).find f.num = some f)
    (hfield : ∀ fuel, (tagBytes f.num wt ++ val).length + 1 ≤ fuel →
      decField fuel S mi m f wt val depth dis = .err e) :
    DecTo S mi depth dis m (tagBytes f.num wt ++ val) (.error e) := by
  intro fuel hf
  cases fuel with
  | zero => omega
  | succ fu =>
    have hmax : f.num < 2 ^ 31 := by unfold maxValidNumber at h2; omega
    have htag := decTag_enc h1 hmax hwt val
    conv => lhs; unfold decMsg
    split
    · rename_i heq; exact absurd heq (tagBytes_ne_nil _ _ _)
    · unfold tagBytes
      rw [htag]
      simp only
      have : ¬ f.num > maxValidNumber := by omega
      simp only [this, if_false, hfind, List.drop_left', hfield fu (by omega)]

theorem unk_loop (S : Schema) (mi : Nat) (depth : Int) (dis : Bool) (g : Int) (hg : g ≤ defaultRecursionLimit) :
    ∀ (fuel0 : Nat) (b : List Byte) (fs : Fields) (u : List Byte), unkOKAux (S.msg mi) g fuel0 b = true →
      DecOK S mi depth dis (.mk fs u) b (.mk fs (if dis then u else u ++ b))
  | 0, _, _, _, h => by simp [unkOKAux] at h
  | fuel0 + 1, b, fs, u, h => by
    unfold unkOKAux at h
    split at h
    · have := DecOK_nil S mi depth dis (.mk fs u)
      simpa using this
    · rename_i hb
      split at h
      · simp at h
      · rename_i num wt tl ht
        simp only [Bool.and_eq_true, decide_eq_true_eq, Option.isNone_iff_eq_none] at h
        obtain ⟨⟨hmax, hfind⟩, h3⟩ := h
        split at h3
        · simp at h3
        · rename_i n hn
          have hn' := consumeFieldValue_depth_mono hg hn
          have ih := unk_loop S mi depth dis g hg fuel0 _ fs (if dis then u else u ++ b.take (tl + n)) h3
          intro fuel hf
          cases fuel with
          | zero => omega
          | succ fu =>
            have hbne : b ≠ [] := fun e => hb e
            rw [decMsg_unknown fu hbne ht hmax hfind hn']
            have htl := decTag_len ht
            have hlen : ((b.drop tl).drop n).length + 2 ≤ fu := by
              simp only [List.length_drop]; omega
            have hdd : (b.drop tl).drop n = b.drop (tl + n) := by rw [List.drop_drop]
            cases dis with
            | true =>
              simp only [if_true] at ih ⊢
              exact ih fu hlen
            | false =>
              simp only [Bool.false_eq_true, if_false, Msg.fields, Msg.unknown] at ih ⊢
              rw [ih fu hlen, hdd, List.append_assoc, List.take_append_drop]

theorem wireType_of_numeric {k : Kind} (h : k.isNumeric = true) :
    k.wireType = 0 ∨ k.wireType = 5 ∨ k.wireType = 1 := by
  cases k <;> simp [Kind.isNumeric, Kind.wireType] at h ⊢

theorem wireType_lt (k : Kind) : k.wireType < 8 := by cases k <;> simp [Kind.wireType]

theorem isMessage_false_of_numeric {k : Kind} (h : k.isNumeric = true) : k.isMessage = false := by
  cases k <;> simp [Kind.isNumeric, Kind.isMessage] at h ⊢

/-- a canonical scalar decodes to itself from its own encoding, whatever follows -/
theorem decScalar_enc {f : Field} {v : Val} (h : wfScalar f v = true) (rest : List Byte) :
    decScalar f f.kind.wireType (encScalar f.kind v ++ rest) = some (.ok v) := by
  cases v with
  | msg m => simp [wfScalar] at h
  | num n =>
    simp only [wfScalar, Bool.and_eq_true, decide_eq_true_eq] at h
    obtain ⟨hnum, hc⟩ := h
    unfold decScalar encScalar
    simp only [ne_eq, not_true_eq_false, if_false]
    rcases wireType_of_numeric hnum with hw | hw | hw <;> simp only [hw]
    · rw [decVarint_enc (wireVarint_lt hc)]; simp only [canonVarint_wire hw hc]
    · rw [decFixed_enc]
      have : n % 2 ^ 32 % 256 ^ 4 = n % 2 ^ 32 := Nat.mod_eq_of_lt (by
        have : (256:Nat) ^ 4 = 2 ^ 32 := by decide
        rw [this]; exact Nat.mod_lt _ (by decide))
      simp only [this, canonFixed32_wire hw hc]
    · rw [decFixed_enc]; simp only [canonFixed64 hc]
  | bytes b =>
    simp only [wfScalar, Bool.and_eq_true, Bool.or_eq_true, decide_eq_true_eq, Bool.not_eq_true'] at h
    obtain ⟨⟨hk, hlen⟩, hutf⟩ := h
    have hw : f.kind.wireType = 2 := by rcases hk with hk | hk <;> simp [hk, Kind.wireType]
    unfold decScalar encScalar
    simp only [ne_eq, not_true_eq_false, if_false, hw, List.append_assoc]
    rw [decBytes_enc' hlen]
    simp only [hutf, Bool.false_eq_true, if_false]

/-- … and `ConsumeFieldValue` measures exactly its encoding -/
theorem consume_scalar {f : Field} {v : Val} (h : wfScalar f v = true) (num : Nat) (rest : List Byte) (g : Int) :
    consumeFieldValue num f.kind.wireType (encScalar f.kind v ++ rest) g = .ok (encScalar f.kind v).length := by
  cases v with
  | msg m => simp [wfScalar] at h
  | num n =>
    simp only [wfScalar, Bool.and_eq_true, decide_eq_true_eq] at h
    obtain ⟨hnum, hc⟩ := h
    unfold encScalar
    rcases wireType_of_numeric hnum with hw | hw | hw <;> simp only [hw]
    · rw [consumeFieldValue_varint, decVarint_enc (wireVarint_lt hc)]; rfl
    · rw [consumeFieldValue_fixed32, decFixed_enc, encFixed_length]; rfl
    · rw [consumeFieldValue_fixed64, decFixed_enc, encFixed_length]; rfl
  | bytes b =>
    simp only [wfScalar, Bool.and_eq_true, Bool.or_eq_true, decide_eq_true_eq, Bool.not_eq_true'] at h
    obtain ⟨⟨hk, hlen⟩, hutf⟩ := h
    have hw : f.kind.wireType = 2 := by rcases hk with hk | hk <;> simp [hk, Kind.wireType]
    unfold encScalar
    simp only [hw, List.append_assoc]
    rw [consumeFieldValue_bytes, decBytes_enc' hlen]; simp [Except.map]

theorem wfScalar_not_message {f : Field} {v : Val} (h : wfScalar f v = true) : f.kind.isMessage = false := by
  cases v with
  | msg m => simp [wfScalar] at h
  | num n =>
    simp only [wfScalar, Bool.and_eq_true] at h
    exact isMessage_false_of_numeric h.1
  | bytes b =>
    simp only [wfScalar, Bool.and_eq_true, Bool.or_eq_true, decide_eq_true_eq] at h
    rcases h.1.1 with hk | hk <;> simp [hk, Kind.isMessage]

/-- singular non-message field -/
theorem decField_singular_scalar {S : Schema} {mi : Nat} {m : Msg} {f : Field} {wt : Nat} {val : List Byte}
    {depth : Int} {dis : Bool} {v : Val} (fuel : Nat)
    (hc1 : f.card ≠ .repeated) (hc2 : f.card ≠ .map) (hmsg : f.kind.isMessage = false)
    (hs : decScalar f wt val = some (.ok v)) :
    decField (fuel + 1) S mi m f wt val depth dis =
      .ok (.mk (setSingular (S.msg mi) f m.fields v) m.unknown) := by
  unfold decField
  cases hc : f.card <;> simp only [hc] at hc1 hc2 ⊢ <;> first | contradiction | simp only [hmsg, hs, Bool.false_eq_true, if_false]

/-- singular message or group field -/
theorem decField_singular_msg {S : Schema} {mi : Nat} {m sub : Msg} {f : Field} {wt : Nat} {val p : List Byte}
    {depth : Int} {dis : Bool} (fuel : Nat)
    (hc1 : f.card ≠ .repeated) (hc2 : f.card ≠ .map) (hmsg : f.kind.isMessage = true)
    (hs : decSubBytes f wt val = some (.ok p)) (hd : ¬ depth - 1 < 0)
    (hfree : ∀ o, f.oneof = some o → oneofFree (S.msg mi) o m.fields = true)
    (hget : m.fields.get? f.num = none)
    (hdec : decMsg fuel S f.sub Msg.empty p (depth - 1) dis = .ok sub) :
    decField (fuel + 1) S mi m f wt val depth dis =
      .ok (.mk (m.fields.set f.num (.one (.msg sub))) m.unknown) := by
  unfold decField
  cases hc : f.card <;> simp only [hc] at hc1 hc2 ⊢ <;> first
    | contradiction
    | (simp only [hmsg, hs, if_true]
       cases ho : f.oneof with
       | none => simp only [hget, hd, if_false, hdec]
       | some o => simp only [clearOneof_of_free _ _ _ (hfree o ho), hget, hd, if_false, hdec])

/-- repeated message or group field: one element -/
theorem decField_repeated_msg {S : Schema} {mi : Nat} {m sub : Msg} {f : Field} {wt : Nat} {val p : List Byte}
    {depth : Int} {dis : Bool} (fuel : Nat)
    (hc : f.card = .repeated) (hmsg : f.kind.isMessage = true)
    (hs : decSubBytes f wt val = some (.ok p)) (hd : ¬ depth - 1 < 0)
    (hdec : decMsg fuel S f.sub Msg.empty p (depth - 1) dis = .ok sub) :
    decField (fuel + 1) S mi m f wt val depth dis =
      .ok (.mk (appendList m.fields f.num (.cons (.msg sub) .nil)) m.unknown) := by
  unfold decField
  simp only [hc, hmsg, if_true, hs, hd, if_false, hdec]

/-- repeated scalar field: one unpacked element -/
theorem decField_repeated_scalar {S : Schema} {mi : Nat} {m : Msg} {f : Field} {val : List Byte}
    {depth : Int} {dis : Bool} {v : Val} (fuel : Nat)
    (hc : f.card = .repeated) (hmsg : f.kind.isMessage = false)
    (hs : decScalar f f.kind.wireType val = some (.ok v)) :
    decField (fuel + 1) S mi m f f.kind.wireType val depth dis =
      .ok (.mk (appendList m.fields f.num (.cons v .nil)) m.unknown) := by
  have h2 : (f.kind.isNumeric && decide (f.kind.wireType = 2)) = false := by
    cases f.kind <;> simp [Kind.isNumeric, Kind.wireType]
  unfold decField
  simp only [hc, hmsg, Bool.false_eq_true, if_false, h2, hs]

/-- repeated numeric field: one packed record -/
theorem decField_packed {S : Schema} {mi : Nat} {m : Msg} {f : Field} {val p : List Byte}
    {depth : Int} {dis : Bool} {vs : Vals} {n : Nat} (fuel : Nat)
    (hc : f.card = .repeated) (hnum : f.kind.isNumeric = true)
    (hb : decBytes val = .ok (p, n))
    (hp : decPacked f.kind (p.length + 1) p = .ok vs) :
    decField (fuel + 1) S mi m f 2 val depth dis =
      .ok (.mk (appendList m.fields f.num vs) m.unknown) := by
  have hmsg := isMessage_false_of_numeric hnum
  unfold decField
  simp only [hc, hmsg, Bool.false_eq_true, if_false, hnum, decide_true, Bool.and_self, if_true, hb, hp]

theorem setSingular_acc {d : MsgD} {f : Field} {acc : Fields} {v : Val}
    (hacc : acc.allLt f.num) (hfree : ∀ o, f.oneof = some o → oneofFree d o acc = true)
    (hz : (f.card == .implicit && v.isZero) = false) :
    setSingular d f acc v = acc.snoc f.num (.one v) := by
  unfold setSingular
  have hz' : (decide (f.card = .implicit) && v.isZero) = false := by
    simpa using hz
  cases ho : f.oneof with
  | none => simp only [hz', Bool.false_eq_true, if_false]; exact Fields.set_of_allLt _ hacc
  | some o =>
    simp only [clearOneof_of_free _ _ _ (hfree o ho), hz', Bool.false_eq_true, if_false]
    exact Fields.set_of_allLt _ hacc

theorem cwfVal_scalar {S : Schema} {g : Int} {f : Field} {v : Val} (hm : f.kind.isMessage = false)
    (h : cwfVal S g f v = true) : wfScalar f v = true := by
  cases v with
  | msg m => simp [cwfVal, hm] at h
  | num n => simp only [cwfVal, Bool.and_eq_true] at h; exact h.2
  | bytes b => simp only [cwfVal, Bool.and_eq_true] at h; exact h.2

theorem wfScalar_strip {f : Field} {v : Val} (h : wfScalar f v = true) (dis : Bool) : stripVal dis v = v := by
  cases v <;> simp [wfScalar, stripVal] at h ⊢

theorem stripVals_scalars {S : Schema} {g : Int} {f : Field} (hm : f.kind.isMessage = false) (dis : Bool) :
    ∀ vs : Vals, cwfVals S g f vs = true → stripVals dis vs = vs
  | .nil, _ => by simp [stripVals]
  | .cons v tl, h => by
    simp only [cwfVals, Bool.and_eq_true] at h
    simp [stripVals, wfScalar_strip (cwfVal_scalar hm h.1), stripVals_scalars hm dis tl h.2]

theorem encScalar_numeric_pos {f : Field} {v : Val} (hnum : f.kind.isNumeric = true) (h : wfScalar f v = true) :
    1 ≤ (encScalar f.kind v).length := by
  cases v with
  | msg m => simp [wfScalar] at h
  | bytes b =>
    simp only [wfScalar, Bool.and_eq_true, Bool.or_eq_true, decide_eq_true_eq] at h
    rcases h.1.1 with hk | hk <;> simp [hk, Kind.isNumeric] at hnum
  | num n =>
    unfold encScalar
    rcases wireType_of_numeric hnum with hw | hw | hw <;> simp only [hw]
    · exact encVarint_length_pos _
    · simp [encFixed_length]
    · simp [encFixed_length]

theorem decPacked_succ (k : Kind) (fuel : Nat) {b : List Byte} (hb : b ≠ []) :
    decPacked k (fuel + 1) b =
      match k.wireType with
      | 0 => match decVarint b with
        | .ok (v, n) => (decPacked k fuel (b.drop n)).map (Vals.cons (.num (canonVarint k v)))
        | .error _ => .error .decode
      | 5 => match decFixed 4 b with
        | .ok (v, n) => (decPacked k fuel (b.drop n)).map (Vals.cons (.num (canonFixed32 k v)))
        | .error _ => .error .decode
      | 1 => match decFixed 8 b with
        | .ok (v, n) => (decPacked k fuel (b.drop n)).map (Vals.cons (.num v))
        | .error _ => .error .decode
      | _ => .error .decode := by
  cases b with
  | nil => exact absurd rfl hb
  | cons x r => simp only [decPacked]; rfl

/-- the elements of a packed payload decode one after the other -/
theorem decPacked_enc {S : Schema} {g : Int} {f : Field} (hnum : f.kind.isNumeric = true) :
    ∀ (vs : Vals), cwfVals S g f vs = true → ∀ fuel, (encPacked f.kind vs).length + 1 ≤ fuel →
      decPacked f.kind fuel (encPacked f.kind vs) = .ok vs
  | .nil, _, fuel, hf => by
    cases fuel with
    | zero => omega
    | succ fu => simp [encPacked, decPacked]
  | .cons v tl, h, fuel, hf => by
    simp only [cwfVals, Bool.and_eq_true] at h
    have hs := cwfVal_scalar (isMessage_false_of_numeric hnum) h.1
    have hpos := encScalar_numeric_pos hnum hs
    cases fuel with
    | zero => omega
    | succ fu =>
      simp only [encPacked, List.length_append] at hf ⊢
      have hfu : (encPacked f.kind tl).length + 1 ≤ fu := by omega
      have ih := decPacked_enc hnum tl h.2 fu hfu
      have hne : encScalar f.kind v ++ encPacked f.kind tl ≠ [] := by
        intro e; have := congrArg List.length e; simp only [List.length_append, List.length_nil] at this; omega
      rw [decPacked_succ _ _ hne]
      · cases v with
        | msg m => simp [wfScalar] at hs
        | bytes b =>
          simp only [wfScalar, Bool.and_eq_true, Bool.or_eq_true, decide_eq_true_eq] at hs
          rcases hs.1.1 with hk | hk <;> simp [hk, Kind.isNumeric] at hnum
        | num n =>
          simp only [wfScalar, Bool.and_eq_true, decide_eq_true_eq] at hs
          have hc := hs.2
          unfold encScalar at ih ⊢
          rcases wireType_of_numeric hnum with hw | hw | hw <;> simp only [hw] at ih ⊢
          · rw [decVarint_enc (wireVarint_lt hc)]
            simp only [List.drop_left, ih, canonVarint_wire hw hc]; rfl
          · rw [decFixed_enc]
            have e1 : n % 2 ^ 32 % 256 ^ 4 = n % 2 ^ 32 := Nat.mod_eq_of_lt (by
              have : (256:Nat) ^ 4 = 2 ^ 32 := by decide
              rw [this]; exact Nat.mod_lt _ (by decide))
            have e2 : List.drop 4 (encFixed 4 (n % 2 ^ 32) ++ encPacked f.kind tl) = encPacked f.kind tl :=
              List.drop_left' (encFixed_length _ _)
            simp only [e1, e2, ih, canonFixed32_wire hw hc]; rfl
          · rw [decFixed_enc]
            have e2 : List.drop 8 (encFixed 8 n ++ encPacked f.kind tl) = encPacked f.kind tl :=
              List.drop_left' (encFixed_length _ _)
            simp only [e2, ih, canonFixed64 hc]; rfl

/-- payload of a length-delimited sub-message record -/
theorem decSubBytes_message {f : Field} (hg : f.kind ≠ .group) {body : List Byte} (hlen : body.length < 2 ^ 64)
    (rest : List Byte) :
    decSubBytes f 2 (encVarint body.length ++ (body ++ rest)) = some (.ok body) := by
  unfold decSubBytes
  simp only [hg, if_false, ne_eq, not_true_eq_false, decBytes_enc' hlen]

/-! ### lengths of extracted payloads -/

theorem decBytes_payload_len {b p : List Byte} {n : Nat} (h : decBytes b = .ok (p, n)) : p.length + 1 ≤ b.length := by
  unfold decBytes at h
  split at h
  · simp at h
  · rename_i m n' heq
    have hn := decVarint_len heq
    split at h
    · simp at h
    · simp only [Except.ok.injEq, Prod.mk.injEq] at h
      rw [← h.1]; simp only [List.length_take, List.length_drop]; omega

theorem stripZeros7_length_le (b : List Byte) : (stripZeros7 b).length ≤ b.length := by
  unfold stripZeros7
  rw [List.length_reverse]
  have := (List.dropWhile_sublist (fun x : Byte => x.toNat % 128 == 0) (l := b.reverse)).length_le
  simpa using this

theorem consumeFieldValue_le {num typ : Nat} {b : List Byte} {d : Int} {n : Nat}
    (h : consumeFieldValue num typ b d = .ok n) : n ≤ b.length := by
  unfold consumeFieldValue at h
  split at h
  · rename_i r hr; subst h; exact (fieldValueLen_le _).1 _ _ _ _ _ hr
  · simp at h

theorem consumeGroup_payload_len {num : Nat} {b p : List Byte} {d : Int} {n : Nat}
    (h : consumeGroup num b d = .ok (p, n)) : p.length + 1 ≤ b.length := by
  unfold consumeGroup at h
  split at h
  · simp at h
  · rename_i n' hn
    have hle := consumeFieldValue_le hn
    have hne : b ≠ [] := by
      intro e; subst e
      simp [consumeFieldValue, Spec.fuelFor, fieldValueLen, groupLen, decTag, decVarint, decVarintAux] at hn
      by_cases hd : d < 0 <;> simp [hd] at hn
    have hb : 1 ≤ b.length := by
      cases b with
      | nil => exact absurd rfl hne
      | cons x r => simp
    simp only [Except.ok.injEq, Prod.mk.injEq] at h
    have hs := stripZeros7_length_le (b.take n')
    have hsv := sizeVarint_pos (encTag num 0)
    rw [← h.1]
    simp only [List.length_take] at hs ⊢
    omega

theorem decSubBytes_payload_len {f : Field} {wt : Nat} {val p : List Byte}
    (h : decSubBytes f wt val = some (.ok p)) : p.length + 1 ≤ val.length := by
  unfold decSubBytes at h
  split at h
  · split at h
    · simp at h
    · split at h
      · rename_i p' n heq
        simp only [Option.some.injEq, Except.ok.injEq] at h; subst h
        exact consumeGroup_payload_len heq
      · simp at h
  · split at h
    · simp at h
    · split at h
      · rename_i p' n heq
        simp only [Option.some.injEq, Except.ok.injEq] at h; subst h
        exact decBytes_payload_len heq
      · simp at h

/-- the packed loop never runs out of its fuel -/
theorem decPacked_no_fuel (k : Kind) : ∀ (fuel : Nat) (b : List Byte), b.length + 1 ≤ fuel →
    decPacked k fuel b ≠ .error .fuel
  | 0, b, h => by omega
  | fuel + 1, [], _ => by simp [decPacked]
  | fuel + 1, x :: r, h => by
    rw [decPacked_succ k fuel (by simp)]
    have step : ∀ (n : Nat) (F : Vals → Vals), 1 ≤ n →
        Except.map F (decPacked k fuel ((x :: r).drop n)) ≠ .error .fuel := by
      intro n F hn
      have := decPacked_no_fuel k fuel ((x :: r).drop n) (by
        simp only [List.length_drop, List.length_cons] at h ⊢; omega)
      cases hr : decPacked k fuel ((x :: r).drop n) with
      | ok v => simp [Except.map]
      | error e => simp only [Except.map]; intro he; apply this; rw [hr]; simpa using he
    split
    · split
      · rename_i v n heq; exact step n _ (decVarint_len heq).1
      · simp
    · split
      · rename_i v n heq
        have : n = 4 := by unfold decFixed at heq; split at heq <;> simp at heq; omega
        exact step n _ (by omega)
      · simp
    · split
      · rename_i v n heq
        have : n = 8 := by unfold decFixed at heq; split at heq <;> simp at heq; omega
        exact step n _ (by omega)
      · simp
    · simp

end Pb
