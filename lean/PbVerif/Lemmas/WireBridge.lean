import PbVerif.Gen.Wire
import PbVerif.Model.WireSpec
import Std.Tactic.BVDecide
/-
Bridge between the translated `Gen.Wire.consumeVarint` (unrolled, BitVec 64, regenerated from
wire.go on every run) and the readable specification `Spec.decVarint` (recursive, Nat).

Two steps:  Gen.consumeVarint = cvAux (same BitVec arithmetic, but recursive) — by unrolling;
            cvAux = Spec.decVarintAux — by induction, one algebraic step lemma.
The varint bridge is kernel-only; the fixed32/64 byte-assembly identities use bv_decide.
-/
namespace WireBridge
open Gen.Wire
abbrev Byte := BitVec 8

/-- recursive shape of Go's unrolled ConsumeVarint, same BitVec arithmetic -/
def cvAux (i : Nat) (v : BitVec 64) : List Byte → (BitVec 64 × BitVec 64)
  | [] => (0#64, 18446744073709551615#64)
  | x :: r =>
    let y := x.setWidth 64
    let v := v + (y <<< (7 * i))
    if i ≥ 9 then (if BitVec.ult y 2#64 then (v, 10#64) else (0#64, 18446744073709551613#64))
    else if BitVec.ult y 128#64 then (v, BitVec.ofNat 64 (i + 1))
    else cvAux (i + 1) (v - (128#64 <<< (7 * i))) r

theorem gen_eq_cvAux (b : List Byte) : consumeVarint b = some (cvAux 0 0#64 b) := by
  rcases b with _ | ⟨x0, _ | ⟨x1, _ | ⟨x2, _ | ⟨x3, _ | ⟨x4, _ | ⟨x5, _ | ⟨x6, _ | ⟨x7, _ | ⟨x8, _ | ⟨x9, rest⟩⟩⟩⟩⟩⟩⟩⟩⟩⟩
  all_goals simp [consumeVarint, cvAux, apply_ite some]

/-- Go result `(v, n)` of ConsumeVarint for a specification outcome -/
def goVarint (v : BitVec 64) (i : Nat) : Except Spec.WErr (Nat × Nat) → (BitVec 64 × BitVec 64)
  | .ok (w, n) => (v + BitVec.ofNat 64 w, BitVec.ofNat 64 (i + n))
  | .error e => (0#64, BitVec.ofInt 64 e.code)

theorem ofNat_sub128 (x : Byte) (hx : ¬ x.toNat < 128) :
    BitVec.ofNat 64 (x.toNat - 128) = x.setWidth 64 - 128#64 := by
  apply BitVec.eq_of_toNat_eq
  have := x.isLt
  simp only [BitVec.toNat_ofNat, BitVec.toNat_sub, BitVec.toNat_setWidth]
  omega

theorem mul_pow_eq_shift (a : BitVec 64) (k : Nat) : a * BitVec.ofNat 64 (2 ^ k) = a <<< k := by
  rw [BitVec.shiftLeft_eq_mul_twoPow]
  congr 1
  apply BitVec.eq_of_toNat_eq
  simp [BitVec.toNat_twoPow]

theorem shl_sub (a b : BitVec 64) (k : Nat) : (a - b) <<< k = a <<< k - b <<< k := by
  simp only [BitVec.shiftLeft_eq_mul_twoPow, BitVec.sub_eq_add_neg, BitVec.add_mul, BitVec.neg_mul]

theorem step_eq (k : Nat) (v : BitVec 64) (x : Byte) (w : Nat) (hx : ¬ x.toNat < 128) :
    v + (x.setWidth 64 <<< k) - (128#64 <<< k) + BitVec.ofNat 64 w
      = v + BitVec.ofNat 64 ((x.toNat - 128) * 2 ^ k + w) := by
  rw [BitVec.ofNat_add, BitVec.ofNat_mul, ofNat_sub128 x hx, mul_pow_eq_shift, shl_sub]
  simp only [BitVec.sub_eq_add_neg, BitVec.add_assoc]

theorem last_eq (k : Nat) (v : BitVec 64) (x : Byte) :
    v + (x.setWidth 64 <<< k) = v + BitVec.ofNat 64 (x.toNat * 2 ^ k) := by
  rw [BitVec.ofNat_mul, mul_pow_eq_shift]
  congr 2
  try apply BitVec.eq_of_toNat_eq
  have := x.isLt
  simp only [BitVec.toNat_ofNat, BitVec.toNat_setWidth]
  try omega

theorem ult_setWidth (x : Byte) (k : Nat) (hk : k ≤ 256) :
    BitVec.ult (x.setWidth 64) (BitVec.ofNat 64 k) = decide (x.toNat < k) := by
  have := x.isLt
  simp only [BitVec.ult, BitVec.toNat_setWidth, BitVec.toNat_ofNat]
  have h1 : x.toNat % 2 ^ 64 = x.toNat := Nat.mod_eq_of_lt (by omega)
  have h2 : k % 2 ^ 64 = k := Nat.mod_eq_of_lt (by omega)
  rw [h1, h2]

theorem cvAux_spec (b : List Byte) : ∀ (i : Nat) (_ : i ≤ 9) (v : BitVec 64),
    cvAux i v b = goVarint v i (Spec.decVarintAux i b) := by
  induction b with
  | nil => intro i hi v; simp [cvAux, Spec.decVarintAux, goVarint, Spec.WErr.code]
  | cons x r ih =>
    intro i hi v
    unfold cvAux Spec.decVarintAux
    have u2 := ult_setWidth x 2 (by omega)
    have u128 := ult_setWidth x 128 (by omega)
    by_cases h9 : i ≥ 9
    · simp only [h9, ↓reduceIte, u2]
      by_cases hx : x.toNat < 2
      · have : i = 9 := by omega
        subst this
        simp only [hx, decide_true, ↓reduceIte, goVarint, last_eq]
      · simp only [hx, decide_false, Bool.false_eq_true, ↓reduceIte, goVarint, Spec.WErr.code]
        simp
    · simp only [h9, ↓reduceIte, u128]
      by_cases hx : x.toNat < 128
      · simp only [hx, decide_true, ↓reduceIte, goVarint, last_eq]
      · simp only [hx, decide_false, Bool.false_eq_true, ↓reduceIte]
        rw [ih (i + 1) (by omega)]
        cases hd : Spec.decVarintAux (i + 1) r with
        | error e => simp [goVarint]
        | ok p =>
          obtain ⟨w, n⟩ := p
          simp only [goVarint]
          rw [step_eq _ _ _ _ hx]
          have e : i + 1 + n = i + (n + 1) := by omega
          rw [e]

/-- `ConsumeVarint` as translated from wire.go never panics and computes exactly the
specification: value and length on success, the documented error code otherwise. -/
theorem consumeVarint_spec (b : List Byte) :
    consumeVarint b = some (goVarint 0#64 0 (Spec.decVarint b)) := by
  rw [gen_eq_cvAux, cvAux_spec b 0 (by omega)]
  rfl

/-! ### bounds of the specification decoder -/

theorem decVarintAux_bounds (b : List Byte) : ∀ (i : Nat) (w n : Nat), i ≤ 9 →
    Spec.decVarintAux i b = .ok (w, n) → 1 ≤ n ∧ i + n ≤ 10 ∧ n ≤ b.length ∧ w < 2 ^ 64 ∧ w % 2 ^ (7 * i) = 0 := by
  induction b with
  | nil => intro i w n _ h; simp [Spec.decVarintAux] at h
  | cons x r ih =>
    intro i w n hi h
    have hx := x.isLt
    unfold Spec.decVarintAux at h
    have hcases : i = 0 ∨ i = 1 ∨ i = 2 ∨ i = 3 ∨ i = 4 ∨ i = 5 ∨ i = 6 ∨ i = 7 ∨ i = 8 ∨ i = 9 := by omega
    rcases hcases with rfl|rfl|rfl|rfl|rfl|rfl|rfl|rfl|rfl|rfl
    all_goals
      simp only [ge_iff_le, Nat.reduceLeDiff, Nat.le_refl, ↓reduceIte, Nat.reduceMul, Nat.reducePow, Nat.reduceAdd] at h ⊢
      split at h
      · simp only [Except.ok.injEq, Prod.mk.injEq] at h
        obtain ⟨rfl, rfl⟩ := h
        simp only [List.length_cons]
        omega
      · first
        | (simp at h; done)
        | (split at h
           · rename_i w' n' hd
             have := ih _ w' n' (by omega) hd
             simp only [Except.ok.injEq, Prod.mk.injEq, Nat.reduceMul, Nat.reducePow] at h this
             obtain ⟨rfl, rfl⟩ := h
             simp only [List.length_cons]
             omega
           · simp at h)

/-- a successfully decoded varint: 1..10 bytes, never more than the input, value below 2^64 -/
theorem decVarint_bounds (b : List Byte) (w n : Nat) (h : Spec.decVarint b = .ok (w, n)) :
    1 ≤ n ∧ n ≤ 10 ∧ n ≤ b.length ∧ w < 2 ^ 64 := by
  have := decVarintAux_bounds b 0 w n (by omega) h
  omega

/-! ### fixed32 / fixed64 -/

def goFixed (w : Nat) : Except Spec.WErr (Nat × Nat) → (BitVec w × BitVec 64)
  | .ok (v, n) => (BitVec.ofNat w v, BitVec.ofNat 64 n)
  | .error e => (0, BitVec.ofInt 64 e.code)

theorem ofNat_toNat8 (w : Nat) (x : Byte) (hw : 8 ≤ w) : BitVec.ofNat w x.toNat = x.setWidth w := by
  apply BitVec.eq_of_toNat_eq
  have := x.isLt
  have : 2^8 ≤ 2^w := Nat.pow_le_pow_right (by omega) hw
  simp only [BitVec.toNat_ofNat, BitVec.toNat_setWidth]

theorem ofNat_toNat8_32 (x : Byte) : BitVec.ofNat 32 x.toNat = x.setWidth 32 := ofNat_toNat8 32 x (by omega)
theorem ofNat_toNat8_64 (x : Byte) : BitVec.ofNat 64 x.toNat = x.setWidth 64 := ofNat_toNat8 64 x (by omega)

theorem consumeFixed32_spec (b : List Byte) : consumeFixed32 b = some (goFixed 32 (Spec.decFixed 4 b)) := by
  rcases b with _ | ⟨x0, _ | ⟨x1, _ | ⟨x2, _ | ⟨x3, rest⟩⟩⟩⟩
  all_goals simp [consumeFixed32, Spec.decFixed, goFixed, Spec.WErr.code, Spec.leValue]
  rw [if_neg (by omega), if_neg (by omega)]
  simp only [Option.some.injEq, Prod.mk.injEq, and_true, BitVec.ofNat_add, BitVec.ofNat_mul, ofNat_toNat8_32]
  bv_decide

theorem consumeFixed64_spec (b : List Byte) : consumeFixed64 b = some (goFixed 64 (Spec.decFixed 8 b)) := by
  rcases b with _ | ⟨x0, _ | ⟨x1, _ | ⟨x2, _ | ⟨x3, _ | ⟨x4, _ | ⟨x5, _ | ⟨x6, _ | ⟨x7, rest⟩⟩⟩⟩⟩⟩⟩⟩
  all_goals simp [consumeFixed64, Spec.decFixed, goFixed, Spec.WErr.code, Spec.leValue]
  rw [if_neg (by omega), if_neg (by omega)]
  simp only [Option.some.injEq, Prod.mk.injEq, and_true, BitVec.ofNat_add, BitVec.ofNat_mul, ofNat_toNat8_64]
  bv_decide

/-! ### tags -/

theorem decodeTag_ofNat (w : Nat) (hw : w < 2 ^ 64) :
    decodeTag (BitVec.ofNat 64 w) =
      if w / 8 > 2147483647 then (4294967295#32, 0#8) else (BitVec.ofNat 32 (w / 8), BitVec.ofNat 8 (w % 8)) := by
  unfold decodeTag
  have hmod : w % 2 ^ 64 = w := Nat.mod_eq_of_lt hw
  have h3 : (BitVec.ofNat 64 w >>> 3).toNat = w / 8 := by
    simp only [BitVec.toNat_ushiftRight, BitVec.toNat_ofNat, hmod, Nat.shiftRight_eq_div_pow]
  have hult : BitVec.ult 2147483647#64 (BitVec.ofNat 64 w >>> 3) = decide (w / 8 > 2147483647) := by
    simp only [BitVec.ult, h3]; rfl
  rw [hult]
  by_cases hc : w / 8 > 2147483647
  · simp [hc]
  · simp only [hc, decide_false, Bool.false_eq_true, ↓reduceIte, Prod.mk.injEq]
    constructor
    · apply BitVec.eq_of_toNat_eq
      simp only [BitVec.toNat_setWidth, h3, BitVec.toNat_ofNat]
    · apply BitVec.eq_of_toNat_eq
      simp only [BitVec.toNat_setWidth, BitVec.toNat_and, BitVec.toNat_ofNat, hmod]
      have : w &&& 7 = w % 8 := by
        have := Nat.and_two_pow_sub_one_eq_mod w 3
        simpa using this
      rw [show (7 % 2 ^ 64) = 7 from rfl, this]
      try omega

def goTag : Except Spec.WErr (Nat × Nat × Nat) → (BitVec 32 × BitVec 8 × BitVec 64)
  | .ok (num, typ, n) => (BitVec.ofNat 32 num, BitVec.ofNat 8 typ, BitVec.ofNat 64 n)
  | .error e => (0#32, 0#8, BitVec.ofInt 64 e.code)

theorem slt_small_false (n : Nat) (h1 : 1 ≤ n) (h2 : n ≤ 10) : BitVec.slt (BitVec.ofNat 64 n) 0#64 = false := by
  have : n = 1 ∨ n = 2 ∨ n = 3 ∨ n = 4 ∨ n = 5 ∨ n = 6 ∨ n = 7 ∨ n = 8 ∨ n = 9 ∨ n = 10 := by omega
  rcases this with rfl|rfl|rfl|rfl|rfl|rfl|rfl|rfl|rfl|rfl <;> decide


theorem consumeTag_spec (b : List Byte) : consumeTag b = some (goTag (Spec.decTag b)) := by
  unfold consumeTag Spec.decTag
  rw [consumeVarint_spec]
  cases hd : Spec.decVarint b with
  | error e => cases e <;> simp [goVarint, goTag, Spec.WErr.code] <;> decide
  | ok p =>
    obtain ⟨w, n⟩ := p
    obtain ⟨h1, h2, _, hw⟩ := decVarint_bounds b w n hd
    simp only [goVarint, Option.bind_some, BitVec.zero_add, Nat.zero_add]
    simp only [slt_small_false n h1 h2, Bool.false_eq_true, ↓reduceIte, decodeTag_ofNat w hw]
    by_cases hc : w / 8 > 2147483647
    · simp only [hc, ↓reduceIte, goTag, Spec.WErr.code]
      rw [if_pos (by decide)]; rfl
    · simp only [hc, ↓reduceIte]
      by_cases h0 : w / 8 < 1
      · simp only [h0, ↓reduceIte, goTag, Spec.WErr.code]
        have : w / 8 = 0 := by omega
        rw [this]
        rw [if_pos (by decide)]; rfl
      · simp only [h0, ↓reduceIte, goTag]
        have hslt : BitVec.slt (BitVec.ofNat 32 (w / 8)) 1#32 = false := by
          have hlt : w / 8 < 2 ^ 31 := by omega
          simp only [BitVec.slt, BitVec.toInt_eq_toNat_cond, BitVec.toNat_ofNat]
          have : w / 8 % 2 ^ 32 = w / 8 := Nat.mod_eq_of_lt (by omega)
          rw [this]
          simp
          omega
        simp [hslt]

/-! ### length-delimited -/

def goBytes : Except Spec.WErr (List Byte × Nat) → (List Byte × BitVec 64)
  | .ok (p, n) => (p, BitVec.ofNat 64 n)
  | .error e => ([], BitVec.ofInt 64 e.code)

theorem msb_ofNat_false (k : Nat) (h : k < 2 ^ 63) : (BitVec.ofNat 64 k).msb = false := by
  rw [BitVec.msb_eq_decide]
  simp only [BitVec.toNat_ofNat]
  have : k % 2 ^ 64 = k := Nat.mod_eq_of_lt (by omega)
  rw [this]; simp; omega

theorem slice_from (b : List Byte) (n : Nat) (hb : b.length < 2 ^ 63) (hn : n ≤ b.length) :
    Go.slice b (some (BitVec.ofNat 64 n)) none = some (b.drop n) := by
  unfold Go.slice
  have h1 : n % 2 ^ 64 = n := Nat.mod_eq_of_lt (by omega)
  have h2 : b.length % 2 ^ 64 = b.length := Nat.mod_eq_of_lt (by omega)
  simp only [Option.getD_some, Option.getD_none, msb_ofNat_false n (by omega), msb_ofNat_false _ hb,
    Bool.or_self, Bool.false_eq_true, ↓reduceIte, BitVec.toNat_ofNat, h1, h2, hn, Nat.le_refl, and_self, List.take_length]

theorem slice_to (b : List Byte) (m : Nat) (hb : b.length < 2 ^ 63) (hm : m ≤ b.length) :
    Go.slice b none (some (BitVec.ofNat 64 m)) = some (b.take m) := by
  unfold Go.slice
  have h1 : m % 2 ^ 64 = m := Nat.mod_eq_of_lt (by omega)
  simp only [Option.getD_some, Option.getD_none, msb_ofNat_false m (by omega), BitVec.msb_zero,
    Bool.or_self, Bool.false_eq_true, ↓reduceIte, BitVec.toNat_ofNat, h1, hm, BitVec.toNat_zero, Nat.zero_le, and_self, List.drop_zero]
  simp

theorem consumeBytes_spec (b : List Byte) (hb : b.length < 2 ^ 63) :
    consumeBytes b = some (goBytes (Spec.decBytes b)) := by
  unfold consumeBytes Spec.decBytes
  rw [consumeVarint_spec]
  cases hd : Spec.decVarint b with
  | error e => cases e <;> simp [goVarint, goBytes, Spec.WErr.code] <;> decide
  | ok p =>
    obtain ⟨m, n⟩ := p
    obtain ⟨h1, h2, hn, hw⟩ := decVarint_bounds b m n hd
    simp only [goVarint, Option.bind_some, BitVec.zero_add, Nat.zero_add]
    simp only [slt_small_false n h1 h2, Bool.false_eq_true, ↓reduceIte, slice_from b n hb hn, Option.bind_some]
    have hlen : (b.drop n).length < 2 ^ 63 := by simp; omega
    have hult : BitVec.ult (BitVec.ofNat 64 (b.drop n).length) (BitVec.ofNat 64 m) = decide ((b.drop n).length < m) := by
      simp only [BitVec.ult, BitVec.toNat_ofNat]
      have e1 : (b.drop n).length % 2 ^ 64 = (b.drop n).length := Nat.mod_eq_of_lt (by omega)
      have e2 : m % 2 ^ 64 = m := Nat.mod_eq_of_lt hw
      rw [e1, e2]
    rw [hult]
    by_cases hc : m > (b.drop n).length
    · have hc2 : (b.drop n).length < m := hc
      simp only [hc2, hc, decide_true, ↓reduceIte, goBytes, Spec.WErr.code]
      rfl
    · have hc' : ¬ (b.drop n).length < m := by omega
      simp only [hc', hc, decide_false, Bool.false_eq_true, ↓reduceIte, goBytes]
      rw [slice_to _ m hlen (by omega)]
      simp only [Option.bind_some, BitVec.ofNat_add]

end WireBridge
